#!/bin/bash
# compound.sh: every (benign refactoring, seeded change) pair that touches a common file and applies together:
# the seeded change must still be reported by its property's check on the refactored tree.
export GOFLAGS=-mod=mod GOPROXY=off
wt=/tmp/compound-wt
[ -d $wt ] || git -C /repo worktree add --detach -q $wt HEAD
git -C $wt checkout -q --detach $(git -C /repo rev-parse HEAD)
for b in /verif/benign/B*; do
  bf=$(grep '^+++ b/' $b/patch.diff | sed 's/^+++ b\///' | sort -u)
  for s in /verif/seeded/C*; do
    sf=$(grep '^+++ b/' $s/patch.diff | sed 's/^+++ b\///' | sort -u)
    common=$(comm -12 <(echo "$bf") <(echo "$sf"))
    [ -z "$common" ] && continue
    git -C $wt checkout -q -- .; git -C $wt clean -fdq
    git -C $wt apply $b/patch.diff 2>/dev/null || continue
    git -C $wt apply $s/patch.diff 2>/dev/null || { git -C $wt apply --3way $s/patch.diff >/dev/null 2>&1 || continue; }
    ( cd $wt && go build ./... >/dev/null 2>&1 ) || continue
    id=$(basename $s); p=${id%%-*}
    out=$(VERIF_REPO=$wt VERIF_EVIDENCE_DIR=/tmp/compound-ev VERIF_REPLAY_DIR=/tmp/compound-rp /verif/bin/govc check $p quick 2>&1); rc=$?
    echo "$(basename $b)+$id $p rc=$rc violations=$(echo "$out" | grep -c '^VIOLATION') fallback=$(echo "$out" | grep -c 'note: bounded fallback') $(echo "$out" | grep '^VIOLATION' | head -2 | sed 's/.*replay=[^ ]*\/\([^/ ]*\)\.json.*/\1/' | tr '\n' ' ')"
  done
done
git -C $wt checkout -q -- .; git -C /repo worktree remove --force $wt; rm -rf /tmp/compound-ev /tmp/compound-rp
