#!/usr/bin/env python3
"""Apply a named single-edit mutation to /repo (or revert). Used by the must-fail selftest corpus."""
import sys, re, subprocess
MUT = {
 # name: (file, old, new, properties expected to report it)
 "defer-unlock": ("internal/template/template.go",
   "\tmock.lock{{.Name}}.Lock()\n\tmock.calls.{{.Name}} = append(mock.calls.{{.Name}}, callInfo)\n\tmock.lock{{.Name}}.Unlock()\n",
   "\tmock.lock{{.Name}}.Lock()\n\tdefer mock.lock{{.Name}}.Unlock()\n\tmock.calls.{{.Name}} = append(mock.calls.{{.Name}}, callInfo)\n", ["C06"]),
 "append-under-rlock": ("internal/template/template.go",
   "\tmock.lock{{.Name}}.Lock()\n\tmock.calls.{{.Name}} = append(mock.calls.{{.Name}}, callInfo)\n\tmock.lock{{.Name}}.Unlock()\n",
   "\tmock.lock{{.Name}}.RLock()\n\tmock.calls.{{.Name}} = append(mock.calls.{{.Name}}, callInfo)\n\tmock.lock{{.Name}}.RUnlock()\n", ["C05"]),
 "reset-truncates-in-place": ("internal/template/template.go",
   ") Reset{{.Name}}Calls() {\n\tmock.lock{{.Name}}.Lock()\n\tmock.calls.{{.Name}} = nil\n",
   ") Reset{{.Name}}Calls() {\n\tmock.lock{{.Name}}.Lock()\n\tmock.calls.{{.Name}} = mock.calls.{{.Name}}[:0]\n", ["C04"]),
 "accessor-no-lock": ("internal/template/template.go",
   "\tmock.lock{{.Name}}.RLock()\n\tcalls = mock.calls.{{.Name}}\n\tmock.lock{{.Name}}.RUnlock()\n",
   "\tcalls = mock.calls.{{.Name}}\n", ["C05"]),
 "record-after-call": ("internal/template/template.go",
   "\tmock.lock{{.Name}}.Lock()\n\tmock.calls.{{.Name}} = append(mock.calls.{{.Name}}, callInfo)\n\tmock.lock{{.Name}}.Unlock()\n{{- if .Returns}}\n\t{{- if $.StubImpl}}",
   "{{- if .Returns}}\n\tdefer func() {\n\tmock.lock{{.Name}}.Lock()\n\tmock.calls.{{.Name}} = append(mock.calls.{{.Name}}, callInfo)\n\tmock.lock{{.Name}}.Unlock()\n\t}()\n\t{{- if $.StubImpl}}", ["C04"]),
 "reverse-call-args": ("internal/template/template_data.go",
   "\tfor i, p := range m.Params {\n\t\tparams[i] = p.CallName()\n\t}",
   "\tfor i, p := range m.Params {\n\t\tparams[len(m.Params)-1-i] = p.CallName()\n\t}", ["C03"]),
 "initialism-dropped": ("internal/template/template.go", '"UID", "UUID", "URI",', '"UID", "URI",', ["C13"]),
 "resetall-skips-first": ("internal/template/template.go",
   ") ResetCalls() {\n\t{{- range .Methods}}\n", ") ResetCalls() {\n\t{{- range $i, $m := .Methods}}{{if $i}}\n", ["C08"]),
 "stub-returns-early": ("internal/template/template.go",
   "{{- else}}\n\t{{- if $.StubImpl}}\n\tif mock.{{.Name}}Func == nil {\n\t\treturn\n\t}\n\t{{- end}}\n\tmock.{{.Name}}Func({{.ArgCallList}})",
   "{{- else}}\n\tmock.{{.Name}}Func({{.ArgCallList}})", ["C07"]),
 "sort-removed": ("internal/registry/registry.go",
   "\tsort.Slice(imports, func(i, j int) bool {\n\t\treturn imports[i].Path() < imports[j].Path()\n\t})\n", "\t_ = sort.Slice\n", ["C14","C11"]),
 "rm-after-load": ("main.go", "if flags.remove && flags.outFile != \"\" {", "if flags.remove && flags.outFile != \"\" && false {", ["C15"]),
 "noop-default": ("pkg/moq/moq.go", "\treturn gofmt(src)\n}", "\treturn src, nil\n}", ["C16"]),
 "mockname-suffix": ("pkg/moq/moq.go", 'return ifaceName, ifaceName + "Mock"', 'return ifaceName, ifaceName + "Mocks"', ["C20"]),
}
def main():
    if sys.argv[1] == "list":
        for k,v in MUT.items(): print(k, ",".join(v[3]))
        return
    if sys.argv[1] == "revert":
        subprocess.check_call(["git","-C","/repo","diff","--quiet","--cached"]); subprocess.check_call(["git","-C","/repo","checkout","--","main.go","pkg/moq/moq.go","pkg/moq/formatter.go","internal/registry/registry.go","internal/registry/package.go","internal/registry/method_scope.go","internal/registry/var.go","internal/template/template.go","internal/template/template_data.go"])
        return
    name = sys.argv[2]
    f, old, new, _ = MUT[name]
    p = "/repo/"+f
    s = open(p).read()
    if old not in s:
        print("mutation anchor not found:", name); sys.exit(3)
    open(p,"w").write(s.replace(old,new,1))
main()
