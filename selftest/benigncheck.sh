#!/bin/bash
# benigncheck.sh <patch.diff>: apply a behaviour-preserving change to /repo, run every registered quick check, undo.
# Any VIOLATION / non-zero exit here is a false alarm of the machinery.
patch=$1
git -C /repo apply --check $patch || { echo "patch does not apply"; exit 3; }
git -C /repo apply $patch
VERIF_EVIDENCE_DIR=/tmp/seed-evidence VERIF_REPLAY_DIR=/tmp/seed-replay /verif/selfcheck.sh 2>&1 | grep -v "rc=0"
for p in C01 C02 C03 C04 C05 C06 C07 C08 C09 C10 C11 C12 C13 C14 C15 C16 C17 C18 C19 C20; do :; done
git -C /repo apply -R $patch
git -C /repo status --short | head -3
