#!/bin/bash
# corpus.sh [must-fail|must-pass] [ids...]: run the seeded (must report a violation) or benign (must stay quiet)
# corpus against the property checks, each change applied to a scratch worktree of /repo HEAD (never /repo itself).
kind=${1:-must-fail}; shift
J=${J:-4}
export GOFLAGS=-mod=mod GOPROXY=off
run_one() {
  kind=$1; d=$2; slot=$3
  id=$(basename $d); wt=/tmp/corpus-wt-$slot
  git -C $wt checkout -q -- . 2>/dev/null; git -C $wt clean -fdq 2>/dev/null
  if ! git -C $wt apply $d/patch.diff 2>/dev/null; then echo "$id APPLY-FAIL"; return; fi
  export VERIF_REPO=$wt VERIF_EVIDENCE_DIR=/tmp/corpus-ev-$slot VERIF_REPLAY_DIR=/tmp/corpus-rp-$slot
  if [ $kind = must-fail ]; then props=${id%%-*}; else props=${PROPS:-"C01 C02 C03 C04 C05 C06 C07 C08 C09 C10 C11 C12 C13 C14 C15 C16 C17 C18 C19 C20"}; fi
  for p in $props; do
    out=$(/verif/bin/govc check $p quick 2>&1); rc=$?
    nv=$(echo "$out" | grep -c "^VIOLATION")
    rep=$(echo "$out" | grep "^VIOLATION" | grep -vc "no-failing-input-found")
    fb=$(echo "$out" | grep -c "note: bounded fallback")
    first=$(echo "$out" | grep "^VIOLATION" | head -3 | sed 's/.*replay=[^ ]*\/\([^/ ]*\)\.json.*/\1/' | tr '\n' ' ')
    echo "$id $p rc=$rc violations=$nv replayed=$rep fallback=$fb $first"
  done
  git -C $wt checkout -q -- .; git -C $wt clean -fdq
}
export -f run_one
for s in $(seq 1 $J); do [ -d /tmp/corpus-wt-$s ] || git -C /repo worktree add --detach -q /tmp/corpus-wt-$s HEAD; git -C /tmp/corpus-wt-$s checkout -q --detach $(git -C /repo rev-parse HEAD); done
if [ $kind = must-fail ]; then dirs=$(ls -d /verif/seeded/C*); else dirs=$(ls -d /verif/benign/*); fi
if [ $# -gt 0 ]; then dirs=""; for x in "$@"; do [ $kind = must-fail ] && dirs="$dirs /verif/seeded/$x" || dirs="$dirs /verif/benign/$x"; done; fi
worker() {
  s=$1; shift; i=0
  for d in "$@"; do
    if [ $(( i % J + 1 )) -eq $s ]; then run_one $kind $d $s; fi
    i=$((i+1))
  done
}
for s in $(seq 1 $J); do worker $s $dirs & done
wait
for s in $(seq 1 $J); do git -C /repo worktree remove --force /tmp/corpus-wt-$s; rm -rf /tmp/corpus-ev-$s /tmp/corpus-rp-$s; done
git -C /repo worktree prune
