#!/bin/bash
# seedcheck.sh <id> [props...]: confirm a sub-agent's seeded change (tests pass, demo fails with / passes without),
# then apply it to /repo, run the given checks (default: the property itself), and undo it.
id=$1; shift; props=${@:-$id}
wt=${WT:-/tmp/wt}/$id; res=$wt/RESULT
export GOFLAGS=-mod=mod GOPROXY=off
echo "== $id: confirming in $wt"
( cd $wt && go build ./... && go test -count=1 ./... 2>&1 | grep -E "^(--- FAIL|FAIL|ok)" | grep -v "no test files" | tr '\n' ' ' ); echo
( cd $wt && bash RESULT/demo/run.sh $wt >/tmp/seed-$id-with.log 2>&1 ); echo "demo with patch: exit $?"
( cd $wt && git apply -R RESULT/patch.diff && bash RESULT/demo/run.sh $wt >/tmp/seed-$id-without.log 2>&1; echo "demo without patch: exit $?"; git apply RESULT/patch.diff )
echo "== $id: applying to /repo"
if ! git -C /repo apply --check $res/patch.diff; then echo "patch does not apply to /repo"; exit 3; fi
git -C /repo apply $res/patch.diff
for p in $props; do
  out=$(VERIF_EVIDENCE_DIR=/tmp/seed-evidence VERIF_REPLAY_DIR=/tmp/seed-replay /verif/check $p quick 2>&1); rc=$?
  echo "-- check $p rc=$rc"; echo "$out" | grep -E "VIOLATION|UNDECIDED|engine:|quick:" | cut -c1-240 | head -8
done
git -C /repo apply -R $res/patch.diff
git -C /repo status --short | head -3
