#!/usr/bin/env python3
"""Generates /verif/MANIFEST.json from the table below (kept in one place so that it stays valid)."""
import json, subprocess

BASE = json.load(open('/root/.vp/BASELINE.json'))

def hooks_commits():
    out = subprocess.run(['git','-C','/repo','log','--format=%H %s'],capture_output=True,text=True).stdout.splitlines()
    return [l.split()[0] for l in out if ' verif hooks' in l or l.split(' ',1)[1].startswith('verif hooks')]

CLAIMED = {
 # id: (text, note, technique)
}
def claim(pid, text, note, technique, design):
    CLAIMED[pid] = dict(text=text, note=note, technique=technique, design=design)

STAGE2 = ("contract schema on the functions moq emits (stage 2): the real moq, built from the working tree, is run on the schema packages and every emitted "
          "function is executed symbolically by govc (weakest-precondition style VCs over go/ssa, discharged by z3 4.8.12 / z3 5.1.0 / cvc5 1.0.3) for all argument values, all mock states, "
          "all behaviours of the user function and all schedules (lock-permission discipline); arity-bounded by the schemas, generalised by the template-uniformity obligation")
TRUST = "A-go (go/ssa models the compiler), A-int, A-sync (sync.RWMutex is a correct lock; lock discipline implies race freedom and atomic sections), A-tmpl (text/template executes as documented), solvers, govc itself; see evidence.coverage.trusted_base"

claim("C03", "Proof (contract schema on emitted code): on every path of every emitted method exactly one function value is called iff MFunc is set, it is the value of MFunc, argument k is parameter k (variadic tail: same slice header), results are forwarded, no go/defer/recover; ArgCallList/CallName are under stage-1 contracts for all n. Bounded part: arity of the schema methods.",
      TRUST, "contract-based deductive verification: own VC generator over go/ssa + SMT; " + STAGE2, "DESIGN.md §4 C03")
claim("C04", "Proof (contract schema on emitted code): each critical section of M appends exactly one record holding the arguments field by field, before the user function runs; the accessor returns the list read under the lock; snapshot stability as a data-structure invariant (real append rule: in place iff len<cap) preserved by method, accessor and resets; no runtime panic for any mock state incl. the zero value. Bounded part: arity.",
      TRUST, "contract-based deductive verification: own VC generator over go/ssa + SMT; " + STAGE2, "DESIGN.md §4 C04")
claim("C05", "Proof (lock-permission discipline, thread-local, for all schedules at once): every read/write/in-place append of calls.M holds lockM in the required mode, Lock havocs the protected list, each critical section's net effect is append-one / identity / empty; lock fields are sync.RWMutex of the real package sync. Bounded part: arity.",
      TRUST, "contract-based deductive verification (ownership/permission ghost state per lock) over go/ssa + SMT; " + STAGE2, "DESIGN.md §4 C05")
claim("C06", "Proof: no lock held at any call of a function value, at any lock acquisition (no nesting, hence no lock-order cycle) and at any return or panic exit of every emitted function; no defer. Bounded part: arity / number of methods of the schemas.",
      TRUST, "contract-based deductive verification (held-lock ghost state) over go/ssa + SMT; " + STAGE2, "DESIGN.md §4 C06")
claim("C07", "Proof: without -stub the only panic is reached iff MFunc is nil, before any lock, write or call, with a constant message naming mock, field and interface method; with -stub no panic is reachable, the nil-func path is recorded and returns SSA zero values of every result type (type parameters included). Bounded part: arity.",
      TRUST, "contract-based deductive verification over go/ssa + SMT; " + STAGE2, "DESIGN.md §4 C07")
claim("C08", "Proof + go/types: method set of *Mock is exactly interface methods + MCalls (+ ResetMCalls, ResetCalls iff -with-resets); each reset section empties exactly its own list under its own lock; ResetCalls empties every list; flag plumbing main.run -> Config -> Data under stage-1 contracts. Bounded part: number of methods.",
      TRUST, "contract-based deductive verification over go/ssa + SMT; go/types on the emitted instances; " + STAGE2, "DESIGN.md §4 C08")

NOT_APPLICABLE = {}

def main():
    props = [json.loads(l)["id"] for l in open('/verif/properties.jsonl')]
    checks = []
    for pid in props:
        if pid in CLAIMED:
            c = CLAIMED[pid]
            checks.append({
                "property_id": pid,
                "quick_cmd": f"./check {pid} quick",
                "thorough_cmd": f"./check {pid} thorough",
                "evidence_file": f"/verif/evidence/{pid}.json",
                "replay_cmd_template": "./check --replay {path}",
                "engine": "govc",
                "level_claimed": {"category": "proof", "text": c["text"], "design_ref": c["design"]},
                "level_note": c["note"],
                "technique": c["technique"],
            })
    na = [{"property_id": p, "reason": NOT_APPLICABLE.get(p, "no check registered yet in this round; see DESIGN.md §4 for the planned obligations")} for p in props if p not in CLAIMED]
    m = {
        "version": 1,
        "setup_cmd": "cd /verif && mkdir -p bin out && cd govc && GOFLAGS=-mod=mod GOPROXY=off go build -o /verif/bin/govc .",
        "hooks": {
            "guard": "verif",
            "enable": "go build -tags verif ./... (contract files zz_contracts_verif.go are comment-only; govc loads /repo with -tags=verif)",
            "baseline_off_cmd": BASE["cmd"],
            "source_commits": hooks_commits(),
            "add_only": True,
        },
        "engines": [{"name": "govc", "path": "/verif/govc", "serves_properties": sorted(CLAIMED), "kind_free_text": "verification-condition generator for Go (symbolic execution of go/ssa, contracts in //@ comments, loops cut by invariants, calls by contracts) discharging with z3 4.8.12, z3 5.1.0, cvc5 1.0.3; go/types and text/template/parse as auxiliary back ends"}],
        "checks": checks,
        "not_applicable": na,
        "notes": "exit 0 = every obligation serving the property discharged (known findings printed as KNOWN-FINDING lines); exit 1 + VIOLATION = an obligation failed or an obligation of the committed baseline is no longer generated; exit 2 + UNDECIDED = the generator could not process the tree (no verdict).",
    }
    json.dump(m, open('/verif/MANIFEST.json','w'), indent=1)
    import jsonschema
    jsonschema.validate(m, json.load(open('/root/.vp/MANIFEST.schema.json')))
    print("MANIFEST ok:", len(checks), "checks;", len(na), "not applicable")
main()
