// Package kfcomparable is the witness of known finding KF-C09-comparable:
// the self-check line instantiates the interface with the constraint itself.
package kfcomparable

type Keyed[K comparable] interface {
	Get(k K) int
}
