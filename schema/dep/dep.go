// Package dep provides types referenced from the schema interfaces, so that
// generated mocks need an import besides sync and the source package.
package dep

// D is an opaque parameter type.
type D struct{ x int }

// E is an opaque result type.
type E int

// Num is a constraint interface from another package.
type Num interface{ ~int | ~int64 }

// Key and Entry let a signature mention this package twice, the second time as
// an instantiated generic whose type argument comes from yet another package.
type Key string

type Entry[T any] struct{ V T }

// Stringer is a constraint without type terms (no representative type can be derived from it).
type Stringer interface{ String() string }
