// Package dep provides types referenced from the schema interfaces, so that
// generated mocks need an import besides sync and the source package.
package dep

// D is an opaque parameter type.
type D struct{ x int }

// E is an opaque result type.
type E int

// Num is a constraint interface from another package.
type Num interface{ ~int | ~int64 }
