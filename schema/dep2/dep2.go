// Package dep2 provides a type that appears only as a type argument of a
// generic type from package dep.
package dep2

// U is an opaque type argument.
type U struct{ n int }
