// Package kfnames holds the witnesses of the known naming findings (DESIGN.md §5): each
// interface makes the real moq emit a file that does not compile.
package kfnames

import "ex.com/schema/depkf/x"

// KFD7: two parameters whose names differ only in the case of the first letter get the same
// call-record field.
type KFD7 interface {
	F(x int, X int)
}

// KFD11: the first letter of a parameter name is upper-cased bytewise.
type KFD11 interface {
	F(éa int)
}

// KFD3: a parameter renamed for an import clash (x -> xMoqParam) collides with an existing one.
type KFD3 interface {
	F(xMoqParam int, x string, y x.T)
}
