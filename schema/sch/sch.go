// Package sch holds the schematic interfaces whose generated mocks are
// verified in stage 2. Parameter and result types are opaque named types:
// nothing in the verification depends on what they are.
package sch

import (
	"unsafe"

	"ex.com/schema/dep"
	"ex.com/schema/dep2"
)

type T0 int
type T1 string
type T2 struct{ a, b int }
type R0 int
type R1 string

// Schema has one method per shape of parameter / result list.
type Schema interface {
	M0()
	M1(a T0)
	M2(a T0, b T1) R0
	M3(a T0, b T1, c T2) (R0, error)
	MU(T0, T1) (R0, R1)
	MB(_ T0, _ T1)
	MV(a T0, rest ...T1) R0
	MN(a T0) (x R0, err error)
	MC(f func(T0) R0, m map[T0]T1, c chan T0, p *T2, s []T1, i interface{ M() T0 })
	MD(d dep.D, id string, url T1) dep.E
	MG(batch map[dep.Key]dep.Entry[dep2.U], own dep.Entry[T2]) (dep.Entry[*T0], error)
	MP(p unsafe.Pointer, q *unsafe.Pointer) unsafe.Pointer
}

// Base is embedded by Emb.
type Base interface {
	B1(a T0) R0
}

// Emb inherits methods from an embedded interface of the same package and one of another.
type Emb interface {
	Base
	Own(b T1)
}

// Empty has no methods (no sync import, no locks).
type Empty interface{}

// GSchema is the generic twin: parameter and result types are type parameters.
type GSchema[K any, V any, N dep.Num] interface {
	Get(k K) (V, bool)
	Put(k K, v V)
	All(ks ...K) []V
	Sum(ns []N) N
}

// GOne is generic in one unconstrained parameter.
type GOne[T any] interface {
	One(t T) T
	None()
}

// GLower spells its type parameters in lower case (they must be kept verbatim).
type GLower[k any, v any] interface {
	Do(a k) v
}

// AliasInst is an alias of an instantiated generic interface: not generic itself, its methods mention the
// type argument where the generic interface mentions its parameter.
type AliasInst = GOne[dep.Key]

// GClash names a type parameter like the type of its constraint: whatever is printed for the
// parameter and whatever is printed for the constraint must not be confused with each other.
type GClash[Stringer dep.Stringer, V any] interface {
	Put(s Stringer, v V) Stringer
}

// Named has method names that exercise the naming rules: initialisms in
// non-canonical case, and a lower-case method (mockable in the same package only).
type Named interface {
	Id(id string) string
	Url() T1
	lower(a T0) R0
}

// Logger has variadic tails without results: an empty-interface element type
// (where a re-wrapped slice would still compile) and a named one.
type Logger interface {
	Logf(format string, args ...interface{})
	Many(vs ...T0)
}

// AliasA and AliasB are alias-declared interface literals: go/types gives their
// methods the same full name "(interface).Transfer" although the parameter
// names are permuted and the types differ.
type AliasA = interface {
	Transfer(from, to T0, amount T1) R0
	Flush()
}

type AliasB = interface {
	Transfer(to, from T0, amount T1) R0
	Flush(ctx T2) (int, error)
}

// Plain mentions no type of this package in its signatures.
type Plain interface {
	Ping(n int, tags ...string) error
}
