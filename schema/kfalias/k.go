// Package kfalias holds witnesses of known findings about invented import aliases
// (/verif/KNOWN_FINDINGS.jsonl: D13, D19, D20). None of the conflicting packages is imported here.
package kfalias

import "ex.com/schema/depkf/alias/emb"

type KFD13 interface{ emb.I13 }

type KFD19 interface{ emb.I19 }

type KFD20 interface{ emb.I20 }

type KFD15 interface{ emb.I15 }
