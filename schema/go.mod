module ex.com/schema

go 1.24
