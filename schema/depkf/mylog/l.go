// Package log lives in a directory that is not called log, and shares its name with a standard-library package.
package log

// Logger is unrelated to the standard library's log.Logger.
type Logger struct{ N int }
