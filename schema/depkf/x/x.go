// Package x is a package whose name equals a parameter name of a known-finding witness.
package x

type T int

// S is used as a union term of a constraint in another package.
type S string
