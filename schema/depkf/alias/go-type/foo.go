package foo

// T is a type of one of several packages named foo.
type T struct{ N int }
