package d

// T is a type of a package that shares its name with a sibling directory's package.
type T struct{ N int }
