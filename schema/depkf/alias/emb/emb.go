// Package emb declares the interfaces that the witnesses of package kfalias embed: their
// signatures mention same-named packages which THIS file aliases, while the file that asks for
// the mock does not import them at all (so moq has to invent the qualifiers itself).
package emb

import (
	d3 "ex.com/schema/depkf/alias/3/d"
	d4 "ex.com/schema/depkf/alias/4/d"
	gotype "ex.com/schema/depkf/alias/go-type"
	"ex.com/schema/depkf/alias/one/foo"
	otherfoo "ex.com/schema/depkf/alias/other/foo"
	twofoo "ex.com/schema/depkf/alias/two/foo"
)

// I13: two packages named d in directories 3 and 4 (D13: invented aliases 3d, 4d are not identifiers).
type I13 interface {
	F(a d3.T, b d4.T)
}

// I19: package foo in directory go-type next to another package foo (D19: invented alias "type").
type I19 interface {
	F(a gotype.T, b otherfoo.T)
}

// I20: a parameter spelled like the alias that a LATER method makes moq invent (D20).
type I20 interface {
	A(onefoo int, x foo.T)
	B(y twofoo.T)
}

// I15: on the first run parameter foo collides with the qualifier foo and is renamed, after which
// the packages get the invented aliases onefoo/twofoo; once the generated file is part of the
// package those aliases are harvested as source-declared ones and foo is kept (D15).
type I15 interface {
	F(foo int, a foo.T)
	G(x twofoo.T)
}
