// Package kfgi holds the witness of a known finding about -fmt goimports (/verif/KNOWN_FINDINGS.jsonl):
// an imported package whose name differs from its directory and equals a standard-library package name.
package kfgi

import "ex.com/schema/depkf/mylog"

type KFGI interface{ F(l log.Logger) }
