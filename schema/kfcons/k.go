// Package kfcons holds the witnesses of the known findings about the self-check line of
// generic interfaces (DESIGN.md §5, D17 and D18).
package kfcons

import "ex.com/schema/depkf/x"

// KFD17: the representative type argument is printed without the import-aware qualifier.
type KFD17[T interface{ x.S | ~int }] interface {
	F(v T)
}

// C is a constraint mixing a type term and a method.
type C interface {
	~int
	String() string
}

// KFD18: the first union term does not satisfy a constraint that also has methods.
type KFD18[T C] interface {
	F(v T)
}
