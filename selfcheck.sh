#!/bin/bash
# Runs every registered quick check on the current tree; prints one line per property. Exit 1 if any alarms.
cd /verif
rc=0
for p in $(python3 -c "import json;print(' '.join(c['property_id'] for c in json.load(open('MANIFEST.json'))['checks']))"); do
  out=$(./check $p quick 2>&1); r=$?
  echo "$p rc=$r $(echo "$out" | tail -1)"
  if [ $r -ne 0 ]; then rc=1; echo "$out" | grep -E "VIOLATION|UNDECIDED|engine:" | head -5; fi
done
exit $rc
