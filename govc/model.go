package main

// Memory model: flattening of Go types into SMT leaves, heap classes, states.

import (
	"fmt"
	"go/types"
	"sort"
	"strings"

	"golang.org/x/tools/go/ssa"
)

const modPrefix = "github.com/matryer/moq/"

func pkgQual(p *types.Package) string {
	path := p.Path()
	if strings.HasPrefix(path, modPrefix) {
		i := strings.LastIndex(path, "/")
		return path[i+1:]
	}
	if path == "github.com/matryer/moq" {
		return "main"
	}
	return path
}

func typeKey(t types.Type) string {
	return types.TypeString(t, pkgQual)
}

type Leaf struct {
	Path string
	Sort Sort
	T    types.Type
}

var flattenCache = map[types.Type][]Leaf{}

// flatten returns the SMT leaves a value of Go type t consists of.
func flatten(t types.Type) []Leaf {
	if l, ok := flattenCache[t]; ok {
		return l
	}
	var out []Leaf
	switch u := t.Underlying().(type) {
	case *types.Basic:
		switch {
		case u.Info()&types.IsBoolean != 0:
			out = []Leaf{{"", SBool, t}}
		case u.Info()&types.IsString != 0:
			out = []Leaf{{"", SString, t}}
		default:
			out = []Leaf{{"", SInt, t}}
		}
	case *types.Slice:
		out = []Leaf{{"#arr", SInt, t}, {"#off", SInt, t}, {"#len", SInt, t}, {"#cap", SInt, t}}
	case *types.Struct:
		for i := 0; i < u.NumFields(); i++ {
			f := u.Field(i)
			for _, l := range flatten(f.Type()) {
				out = append(out, Leaf{"." + f.Name() + l.Path, l.Sort, l.T})
			}
		}
	case *types.Tuple:
		for i := 0; i < u.Len(); i++ {
			for _, l := range flatten(u.At(i).Type()) {
				out = append(out, Leaf{fmt.Sprintf("@%d%s", i, l.Path), l.Sort, l.T})
			}
		}
	case *types.Array:
		// array values are only supported behind pointers (backing arrays)
		out = []Leaf{{"#arrayval", SInt, t}}
	default:
		// pointers, maps, chans, funcs, interfaces, type parameters: one Int
		out = []Leaf{{"", SInt, t}}
	}
	flattenCache[t] = out
	return out
}

// fieldRange returns the leaf index range [lo,hi) of field i in struct type st.
func fieldRange(st *types.Struct, i int) (int, int) {
	lo := 0
	for k := 0; k < i; k++ {
		lo += len(flatten(st.Field(k).Type()))
	}
	return lo, lo + len(flatten(st.Field(i).Type()))
}

// SV is a symbolic value: leaves for ordinary values, or a derived address,
// or a statically known function value.
type SV struct {
	T    types.Type
	L    []Term
	Addr *Addr
	Fn   *FnVal
	// provenance: the protected location this slice value was loaded from (stage 2)
	Prot string
}

type FnVal struct {
	Fn       *ssa.Function
	Bindings []SV
}

const (
	AObj    = iota // whole heap object of class Class at Ref (Path selects a sub-range)
	AElem          // cell Idx of backing array Ref in array class Class
	AGlobal        // package-level variable Class
	ALocal         // non-escaping local variable cell (not part of the heap)
)

type Addr struct {
	Kind  int
	Class string // type key of the root (object type / element type / global name)
	Ref   Term
	Idx   Term
	Path  string     // leaf path prefix inside the root
	T     types.Type // type of the pointee
	Local *ssa.Alloc
}

func (a *Addr) String() string {
	switch a.Kind {
	case AObj:
		return fmt.Sprintf("H:%s[%s]%s", a.Class, a.Ref.S, a.Path)
	case AElem:
		return fmt.Sprintf("A:%s[%s][%s]%s", a.Class, a.Ref.S, a.Idx.S, a.Path)
	case ALocal:
		return "local:" + a.Local.Comment + a.Path
	}
	return "G:" + a.Class + a.Path
}

func scalar(t types.Type, x Term) SV { return SV{T: t, L: []Term{x}} }

// State is the symbolic state of one path.
type State struct {
	backEdges int // bounded mode: loop iterations started on this path
	heap    map[string]Term // class#leaf -> current array term
	heap0   map[string]Term // entry versions (shared; filled lazily)
	alloc   Term
	pc      []Term
	env     map[ssa.Value]SV
	events  []Event
	held    map[string]string // lock address -> "R"/"W"
	ghost   map[string]Term
	written map[string]bool // heap classes written on this path (frame check)
	// loops
	inLoop  map[*ssa.BasicBlock]*loopCtx
	unroll  map[*ssa.BasicBlock]int
	joins   map[string]joinFact // result term -> strings.Join provenance
	locals    map[*ssa.Alloc][]Term // contents of non-escaping local variables
	localRefs map[string]bool // references allocated by this activation
	impure    []string        // reasons why the result may depend on more than the arguments
	havocPref []havocMark       // heap-class prefixes havocked on this path (lazy symbols must not be the entry ones)
	depth   int
	nsteps  int
	trace   []string
	aborted string
	exited  bool // os.Exit was called: the path ends here
	defers  []*ssa.Defer
}

type havocMark struct {
	prefix   string
	gen      int
	frame    bool // objects that existed before (below allocPre) are unchanged; newer ones arbitrary
	allocPre Term
}

// markFrame: a callee may have initialised objects of these classes that it allocated.
func (e *Exec) markFrame(st *State, allocPre Term, prefixes ...string) {
	e.ctx.n++
	for _, p := range prefixes {
		st.havocPref = append(st.havocPref, havocMark{prefix: p, gen: e.ctx.n, frame: true, allocPre: allocPre})
	}
	e.ctx.genAlloc[e.ctx.n] = st.alloc
}

func (e *Exec) markHavoc(st *State, prefixes ...string) {
	e.ctx.n++
	for _, p := range prefixes {
		st.havocPref = append(st.havocPref, havocMark{prefix: p, gen: e.ctx.n})
	}
	e.ctx.genAlloc[e.ctx.n] = st.alloc
}

func isRefLeaf(l Leaf) bool {
	if l.Sort != SInt {
		return false
	}
	if strings.HasSuffix(l.Path, "#arr") {
		return true
	}
	if strings.HasSuffix(l.Path, "#off") || strings.HasSuffix(l.Path, "#len") || strings.HasSuffix(l.Path, "#cap") {
		return false
	}
	return isRefType(l.T)
}

// closedness: every reference stored in heap symbol t (declared for heap location name) is
// allocated (below alloc). This is the global invariant of the memory model that makes a freshly
// allocated reference distinct from everything reachable before.
func (c *Ctx) closed(name string, t Term, alloc Term) {
	if !c.refLeaf[name] {
		return
	}
	var ax string
	srt := string(t.Sort)
	switch {
	case srt == "Int":
		ax = fmt.Sprintf("(assert (and (<= 0 %s) (< %s %s)))", t.S, t.S, alloc.S)
	case srt == "(Array Int Int)":
		ax = fmt.Sprintf("(assert (forall ((p!c Int)) (! (and (<= 0 (select %s p!c)) (< (select %s p!c) %s)) :pattern ((select %s p!c)))))", t.S, t.S, alloc.S, t.S)
	case strings.HasPrefix(srt, "(Array Int (Array ") && strings.HasSuffix(srt, " Int))"):
		ks := idxSort(elemSort(t.Sort))
		ax = fmt.Sprintf("(assert (forall ((p!c Int) (k!c %s)) (! (and (<= 0 (select (select %s p!c) k!c)) (< (select (select %s p!c) k!c) %s)) :pattern ((select (select %s p!c) k!c)))))", ks, t.S, t.S, alloc.S, t.S)
	default:
		return
	}
	c.symAxiom[t.S] = ax
}

type joinFact struct {
	Arr, Off, Len, Sep Term
}

type loopCtx struct {
	measure *Term
	progress *Term // value at the header of the expression that `loop k increases` says grows on every iteration
}

type Event struct {
	Kind   string // lock, rlock, unlock, runlock, load, store, invoke, extern, panic, return, alloc
	Addr   string
	Mode   string
	Terms  []Term
	SVs    []SV
	Instr  ssa.Instruction
	Callee string
	Pc     []Term
	Note   string
	HeapAt map[string]Term
	Res    SV
}

func (s *State) clone() *State {
	n := *s
	n.heap = make(map[string]Term, len(s.heap))
	for k, v := range s.heap {
		n.heap[k] = v
	}
	n.pc = append([]Term(nil), s.pc...)
	n.env = make(map[ssa.Value]SV, len(s.env))
	for k, v := range s.env {
		n.env[k] = v
	}
	n.events = append([]Event(nil), s.events...)
	n.held = map[string]string{}
	for k, v := range s.held {
		n.held[k] = v
	}
	n.ghost = map[string]Term{}
	for k, v := range s.ghost {
		n.ghost[k] = v
	}
	n.written = map[string]bool{}
	for k, v := range s.written {
		n.written[k] = v
	}
	n.inLoop = map[*ssa.BasicBlock]*loopCtx{}
	for k, v := range s.inLoop {
		n.inLoop[k] = v
	}
	n.unroll = map[*ssa.BasicBlock]int{}
	for k, v := range s.unroll {
		n.unroll[k] = v
	}
	n.joins = map[string]joinFact{}
	for k, v := range s.joins {
		n.joins[k] = v
	}
	n.trace = append([]string(nil), s.trace...)
	n.havocPref = append([]havocMark(nil), s.havocPref...)
	n.impure = append([]string(nil), s.impure...)
	n.defers = append([]*ssa.Defer(nil), s.defers...)
	n.locals = map[*ssa.Alloc][]Term{}
	for k, v := range s.locals {
		n.locals[k] = v
	}
	n.localRefs = map[string]bool{}
	for k := range s.localRefs {
		n.localRefs[k] = true
	}
	return &n
}

func (s *State) heapSnapshot() map[string]Term {
	m := make(map[string]Term, len(s.heap))
	for k, v := range s.heap {
		m[k] = v
	}
	return m
}

// Ctx collects declarations shared by all paths of one function verification.
type Ctx struct {
	decls    []string          // declare-fun / define-fun lines in order
	declared map[string]bool   // symbol -> declared
	n        int               // fresh counter
	heapSort map[string]Sort   // heap symbol -> sort
	axioms   []string          // (assert ...) lines that are part of the prelude for this ctx
	ufs      map[string]string // uninterpreted function name -> signature
	refLeaf  map[string]bool   // heap symbol name (class#leaf) -> leaf holds references
	symAxiom map[string]string // declared heap symbol -> closedness assertion (every stored reference is allocated)
	genAlloc map[int]Term      // havoc generation -> allocation counter after it
}

func newCtx() *Ctx {
	return &Ctx{declared: map[string]bool{}, heapSort: map[string]Sort{}, ufs: map[string]string{}, refLeaf: map[string]bool{}, symAxiom: map[string]string{}, genAlloc: map[int]Term{}}
}

func (c *Ctx) fresh(prefix string, s Sort) Term {
	c.n++
	name := sym(fmt.Sprintf("%s!%d", prefix, c.n))
	c.decls = append(c.decls, fmt.Sprintf("(declare-fun %s () %s)", name, s))
	return Term{name, s}
}

// def names a term (keeps formulas small).
func (c *Ctx) def(prefix string, t Term) Term {
	if len(t.S) < 40 {
		return t
	}
	c.n++
	name := sym(fmt.Sprintf("%s!%d", prefix, c.n))
	c.decls = append(c.decls, fmt.Sprintf("(define-fun %s () %s %s)", name, t.Sort, t.S))
	return Term{name, t.Sort}
}

func (c *Ctx) constSym(name string, s Sort) Term {
	q := sym(name)
	if !c.declared[q] {
		c.declared[q] = true
		c.decls = append(c.decls, fmt.Sprintf("(declare-fun %s () %s)", q, s))
	}
	return Term{q, s}
}

// uf declares (once) an uninterpreted function and applies it.
func (c *Ctx) uf(name string, res Sort, args ...Term) Term {
	q := sym(name)
	var as []string
	for _, a := range args {
		as = append(as, string(a.Sort))
	}
	sig := fmt.Sprintf("(%s) %s", strings.Join(as, " "), res)
	if old, ok := c.ufs[q]; ok {
		if old != sig {
			// same name with different signature: disambiguate
			q = sym(name + "::" + sig)
			if _, ok := c.ufs[q]; !ok {
				c.ufs[q] = sig
				c.decls = append(c.decls, fmt.Sprintf("(declare-fun %s %s)", q, sig))
			}
		}
	} else {
		c.ufs[q] = sig
		c.decls = append(c.decls, fmt.Sprintf("(declare-fun %s %s)", q, sig))
	}
	if len(args) == 0 {
		return Term{q, res}
	}
	return app(res, q, args...)
}

func (c *Ctx) axiom(t Term) {
	c.axioms = append(c.axioms, "(assert "+t.S+")")
}

// heap symbol helpers -------------------------------------------------------

func heapSym(kind, class, leaf string) string { return kind + ":" + class + "#" + leaf }

func (e *Exec) heapGet(st *State, name string, s Sort) Term {
	if t, ok := st.heap[name]; ok {
		return t
	}
	t := e.heapLazy(st, name, s, len(st.havocPref))
	st.heap[name] = t
	return t
}

// heapLazy: the symbol for a heap location first touched now, given the havoc / frame marks [0, upto).
func (e *Exec) heapLazy(st *State, name string, s Sort, upto int) Term {
	for i := upto - 1; i >= 0; i-- {
		mk := st.havocPref[i]
		if strings.HasPrefix(name, mk.prefix) || (mk.frame && strings.HasPrefix(mk.prefix, name)) {
			// deterministic name: clones of this state agree on the symbol
			t := e.ctx.constSym(fmt.Sprintf("%s@h%d", name, mk.gen), s)
			e.ctx.heapSort[name] = s
			if al, ok := e.ctx.genAlloc[mk.gen]; ok {
				e.ctx.closed(name, t, al)
			}
			if mk.frame && strings.HasPrefix(string(s), "(Array Int ") {
				prev := e.heapLazy(st, name, s, i)
				return e.ctx.def("framed", Mix(prev, t, mk.allocPre))
			}
			if mk.frame {
				continue // scalars (globals) are not framed
			}
			return t
		}
	}
	t, ok := st.heap0[name]
	if !ok {
		t = e.ctx.constSym(name+"@0", s)
		st.heap0[name] = t
		e.ctx.heapSort[name] = s
		e.ctx.closed(name, t, Term{sym("alloc@0"), SInt})
	}
	return t
}

func (e *Exec) heapSet(st *State, name string, t Term) {
	e.ctx.heapSort[name] = t.Sort
	st.heap[name] = e.ctx.def("h", t)
	st.written[name] = true
}

// load reads the value at address a.
// localRange: leaf index range of the sub-object at path inside local a.Local.
func localRange(a *Addr) (int, int) {
	root := a.Local.Type().(*types.Pointer).Elem()
	all := flatten(root)
	lo, hi := -1, -1
	for i, l := range all {
		if l.Path == a.Path || strings.HasPrefix(l.Path, a.Path+".") || strings.HasPrefix(l.Path, a.Path+"#") || a.Path == "" {
			if lo < 0 {
				lo = i
			}
			hi = i + 1
		}
	}
	if lo < 0 {
		return 0, 0
	}
	return lo, hi
}

func (e *Exec) load(st *State, a *Addr) SV {
	leaves := flatten(a.T)
	if a.Kind == ALocal {
		lo, hi := localRange(a)
		cur := st.locals[a.Local]
		if hi-lo != len(leaves) || hi > len(cur) {
			panic(fmt.Sprintf("local load: leaf mismatch at %s", a))
		}
		return SV{T: a.T, L: append([]Term(nil), cur[lo:hi]...)}
	}
	out := SV{T: a.T, L: make([]Term, len(leaves))}
	for i, l := range leaves {
		switch a.Kind {
		case AObj:
			e.ctx.refLeaf[heapSym("H", a.Class, a.Path+l.Path)] = isRefLeaf(l)
			arr := e.heapGet(st, heapSym("H", a.Class, a.Path+l.Path), ArrSort(SInt, l.Sort))
			out.L[i] = Select(arr, a.Ref)
		case AElem:
			e.ctx.refLeaf[heapSym("A", a.Class, a.Path+l.Path)] = isRefLeaf(l)
			arr := e.heapGet(st, heapSym("A", a.Class, a.Path+l.Path), ArrSort(SInt, ArrSort(SInt, l.Sort)))
			out.L[i] = Select(Select(arr, a.Ref), a.Idx)
		case AGlobal:
			e.ctx.refLeaf[heapSym("G", a.Class, a.Path+l.Path)] = isRefLeaf(l)
			out.L[i] = e.heapGet(st, heapSym("G", a.Class, a.Path+l.Path), l.Sort)
		}
	}
	return out
}

func (e *Exec) store(st *State, a *Addr, v SV) {
	leaves := flatten(a.T)
	if len(v.L) != len(leaves) {
		panic(fmt.Sprintf("store: leaf mismatch %s: %d vs %d (%s)", a, len(v.L), len(leaves), typeKey(a.T)))
	}
	if a.Kind == ALocal {
		lo, hi := localRange(a)
		cur := append([]Term(nil), st.locals[a.Local]...)
		if hi-lo != len(leaves) || hi > len(cur) {
			panic(fmt.Sprintf("local store: leaf mismatch at %s", a))
		}
		copy(cur[lo:hi], v.L)
		st.locals[a.Local] = cur
		return
	}
	for i, l := range leaves {
		switch a.Kind {
		case AObj:
			name := heapSym("H", a.Class, a.Path+l.Path)
			e.ctx.refLeaf[name] = isRefLeaf(l)
			arr := e.heapGet(st, name, ArrSort(SInt, l.Sort))
			e.heapSet(st, name, Store(arr, a.Ref, v.L[i]))
		case AElem:
			name := heapSym("A", a.Class, a.Path+l.Path)
			e.ctx.refLeaf[name] = isRefLeaf(l)
			arr := e.heapGet(st, name, ArrSort(SInt, ArrSort(SInt, l.Sort)))
			e.heapSet(st, name, Store(arr, a.Ref, Store(Select(arr, a.Ref), a.Idx, v.L[i])))
		case AGlobal:
			e.heapSet(st, heapSym("G", a.Class, a.Path+l.Path), v.L[i])
		}
	}
}

func zeroSV(t types.Type) SV {
	leaves := flatten(t)
	out := SV{T: t, L: make([]Term, len(leaves))}
	for i, l := range leaves {
		out.L[i] = ZeroOf(l.Sort)
	}
	return out
}

func (e *Exec) freshSV(prefix string, t types.Type) SV {
	leaves := flatten(t)
	out := SV{T: t, L: make([]Term, len(leaves))}
	for i, l := range leaves {
		out.L[i] = e.ctx.fresh(prefix+l.Path, l.Sort)
	}
	return out
}

// allocRef returns a fresh reference, distinct from all existing ones.
func (e *Exec) allocRef(st *State) Term {
	r := st.alloc
	st.alloc = e.ctx.def("alloc", Add(st.alloc, IntLit(1)))
	if st.localRefs == nil {
		st.localRefs = map[string]bool{}
	}
	st.localRefs[r.S] = true
	return r
}

// wfAssume adds the type-level well-formedness facts of a value that came from
// outside (parameter, heap load, call result).
func (e *Exec) wfAssume(st *State, v SV) {
	leaves := flatten(v.T)
	for i, l := range leaves {
		if i >= len(v.L) {
			break
		}
		switch {
		case strings.HasSuffix(l.Path, "#arr"):
			// slice header: 0 <= off, 0 <= len <= cap, arr allocated, nil slice is all zero
			arr, off, ln, cp := v.L[i], v.L[i+1], v.L[i+2], v.L[i+3]
			st.pc = append(st.pc,
				And(Ge(arr, IntLit(0)), Lt(arr, st.alloc), Ge(off, IntLit(0)), Ge(ln, IntLit(0)), Le(ln, cp)),
				Implies(Eq(arr, IntLit(0)), And(Eq(ln, IntLit(0)), Eq(cp, IntLit(0)), Eq(off, IntLit(0)))))
		case l.Sort == SInt && isRefType(l.T) && !strings.HasSuffix(l.Path, "#off") && !strings.HasSuffix(l.Path, "#len") && !strings.HasSuffix(l.Path, "#cap"):
			st.pc = append(st.pc, And(Ge(v.L[i], IntLit(0)), Lt(v.L[i], st.alloc)))
		}
	}
}

func isRefType(t types.Type) bool {
	switch t.Underlying().(type) {
	case *types.Pointer, *types.Map, *types.Chan, *types.Signature, *types.Interface:
		return true
	}
	return false
}

func sortedKeys[V any](m map[string]V) []string {
	var ks []string
	for k := range m {
		ks = append(ks, k)
	}
	sort.Strings(ks)
	return ks
}
