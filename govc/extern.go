package main

// Assumed contracts on dependencies (the trusted base). Every model carries
// an effect class (used by the frame / determinism obligations of C14, C17,
// C18) and the text of the assumption, which is copied into the evidence.

import (
	"fmt"
	"os"
	"go/constant"
	"go/types"
	"strings"

	"golang.org/x/tools/go/ssa"
)

type ExternModel struct {
	Effect string // pure | alloc | fs-read | fs-write | io-write | stdout | exit | flag
	Assume string
	Fn     func(e *Exec, fr *frame, st *State, ci ssa.CallInstruction, args []SV, rt types.Type) SV
}

// pureStdPkgs: standard-library packages whose functions are deterministic and touch nothing but their
// arguments (A-std). Calls into them need no effect entry; where the body is within the modelled subset it
// is executed like a helper of the module (so that, e.g., strings.Cut or slices.Contains need no model).
var pureStdPkgs = map[string]bool{"slices": true, "strings": true, "strconv": true, "unicode": true, "unicode/utf8": true, "bytes": true,
	"sort": true, "errors": true, "path": true, "cmp": true, "regexp": true, "math": true, "math/bits": true, "internal/stringslite": true}

// stdReader: standard-library functions that only read the slices they are given
func stdReader(name string) bool {
	i := strings.LastIndex(name, ".")
	base := name[i+1:]
	if j := strings.Index(base, "["); j >= 0 {
		base = base[:j]
	}
	for _, p := range []string{"Contains", "Index", "Equal", "Compare", "Max", "Min", "BinarySearch", "IsSorted", "Count", "HasPrefix", "HasSuffix", "Join", "Len", "Cap"} {
		if strings.HasPrefix(base, p) {
			return true
		}
	}
	return false
}

func pureStdFn(f *ssa.Function) bool {
	if f == nil {
		return false
	}
	g := f
	if o := f.Origin(); o != nil {
		g = o
	}
	for g.Parent() != nil {
		g = g.Parent()
	}
	return g.Pkg != nil && pureStdPkgs[g.Pkg.Pkg.Path()]
}

// stdInlinable: the body of a pure standard-library function stays within the instruction subset the
// executor models (no unsafe, no goroutines/defer/channels), and so do the functions it calls.
func (e *Exec) stdInlinable(f *ssa.Function, depth int) (ok bool) {
	if os.Getenv("GOVC_DEBUG") != "" {
		defer func() { fmt.Fprintf(os.Stderr, "stdInlinable %s depth %d blocks %d pure %v -> %v\n", f, depth, len(f.Blocks), pureStdFn(f), ok) }()
	}
	if !pureStdFn(f) || len(f.Blocks) == 0 || depth > 3 {
		return false
	}
	if v, ok := e.stdOK[f]; ok {
		return v
	}
	if e.stdOK == nil {
		e.stdOK = map[*ssa.Function]bool{}
	}
	e.stdOK[f] = false // recursion: not inlinable
	for _, b := range f.Blocks {
		for _, in := range b.Instrs {
			switch x := in.(type) {
			case *ssa.Go, *ssa.Defer, *ssa.RunDefers, *ssa.Select, *ssa.Send, *ssa.MakeChan, *ssa.MakeInterface, *ssa.TypeAssert, *ssa.ChangeInterface, *ssa.MakeClosure:
				return false
			case *ssa.Convert:
				if b, ok := x.Type().Underlying().(*types.Basic); ok && b.Kind() == types.UnsafePointer {
					return false
				}
				if b, ok := x.X.Type().Underlying().(*types.Basic); ok && b.Kind() == types.UnsafePointer {
					return false
				}
			case *ssa.UnOp:
				if _, ok := x.X.(*ssa.Global); ok {
					return false
				}
			case ssa.CallInstruction:
				c := x.Common()
				if _, ok := c.Value.(*ssa.Builtin); ok {
					continue
				}
				if c.IsInvoke() {
					return false
				}
				cal := c.StaticCallee()
				if cal == nil {
					if _, isParam := c.Value.(*ssa.Parameter); isParam {
						continue // a function value handed in by the caller
					}
					return false
				}
				if _, ok := externs[calleeKey(cal)]; ok {
					continue
				}
				if !e.stdInlinable(cal, depth+1) {
					return false
				}
			}
		}
	}
	e.stdOK[f] = true
	return true
}

var pureAccessorPkgs = map[string]bool{"go/types": true, "go/ast": true, "go/token": true, "go/constant": true}

// API preconditions of go/types accessors: index < length accessor.
var apiIndexPre = map[string]string{
	"At": "Len", "Method": "NumMethods", "ExplicitMethod": "NumExplicitMethods", "EmbeddedType": "NumEmbeddeds",
	"Term": "Len", "Field": "NumFields", "Embedded": "NumEmbeddeds",
}

var nonNilGlobals = map[string]bool{"os.Stdout": true, "os.Stderr": true, "os.ErrNotExist": true, "go/types.Unsafe": true}

// accessors of go/types whose result is never nil (A-types)
var nonNilAccessor = map[string]bool{"Scope": true, "Type": true, "Underlying": true, "Obj": true, "Params": true, "Results": true, "Elem": true, "Key": true,
	"At": true, "Method": true, "Complete": true, "EmbeddedType": true, "ExplicitMethod": true, "Term": true, "Field": true, "Constraint": true}

func (e *Exec) externModifies(c *ssa.CallCommon) []string {
	name := ""
	if c.IsInvoke() {
		name = typeKey(c.Value.Type()) + "." + c.Method.Name()
	} else if f := c.StaticCallee(); f != nil {
		name = calleeKey(f)
	}
	switch name {
	case "sort.Slice":
		return []string{"A:"}
	case "io.Writer.Write", "(*text/template.Template).Execute":
		return []string{"H:bytes.Buffer#"}
	}
	return nil
}

// sbGet / sbSet: ghost content of a strings.Builder, per builder object (or per non-escaping local)
func (e *Exec) sbKey(recv SV) (string, Term, bool) {
	if recv.Addr != nil && recv.Addr.Kind == ALocal && recv.Addr.Local != nil {
		return fmt.Sprintf("sb:%p", recv.Addr.Local), Term{}, true
	}
	if recv.Addr != nil && recv.Addr.Kind == AObj {
		return "", recv.Addr.Ref, false
	}
	if len(recv.L) == 1 {
		return "", recv.L[0], false
	}
	return "sb:unknown", Term{}, true
}

func (e *Exec) sbGet(st *State, recv SV) Term {
	k, ref, local := e.sbKey(recv)
	if local {
		if t, ok := st.ghost[k]; ok {
			return t
		}
		return StrLit("")
	}
	h := e.heapGet(st, heapSym("H", "strings.Builder", ".ghost"), ArrSort(SInt, SString))
	return Select(h, ref)
}

func (e *Exec) sbSet(st *State, recv SV, v Term) {
	k, ref, local := e.sbKey(recv)
	if local {
		st.ghost[k] = v
		return
	}
	name := heapSym("H", "strings.Builder", ".ghost")
	h := e.heapGet(st, name, ArrSort(SInt, SString))
	e.heapSet(st, name, Store(h, ref, v))
}

func (e *Exec) extern(fr *frame, st *State, ci ssa.CallInstruction, name string, fobj *types.Func, args []SV, rt types.Type) SV {
	e.usedExt[name] = true
	if m, ok := externs[name]; ok {
		st.events = append(st.events, Event{Kind: "extern", Callee: name, Mode: m.Effect, SVs: args, Instr: ci, Pc: append([]Term(nil), st.pc...)})
		if m.Effect != "pure" && m.Effect != "alloc" {
			st.impure = append(st.impure, "calls "+name+" ("+m.Effect+")")
		}
		res := m.Fn(e, fr, st, ci, args, rt)
		res.T = rt
		for k := len(st.events) - 1; k >= 0; k-- {
			if st.events[k].Instr == ci {
				st.events[k].Terms = res.L
				st.events[k].Res = res
				break
			}
		}
		return res
	}
	if fobj != nil && fobj.Pkg() != nil && pureAccessorPkgs[fobj.Pkg().Path()] {
		return e.pureAccessor(fr, st, ci, fobj, args, rt)
	}
	if fobj != nil && fobj.Pkg() != nil && pureStdPkgs[fobj.Pkg().Path()] {
		// A-std: a deterministic function of its arguments without side effects; over scalar arguments it is an
		// uninterpreted function, otherwise its result is unconstrained
		st.events = append(st.events, Event{Kind: "extern", Callee: name, Mode: "pure", SVs: args, Instr: ci, Pc: append([]Term(nil), st.pc...)})
		scalar := true
		var ts []Term
		for _, a := range args {
			for i, l := range flatten(a.T) {
				if isRefType(l.T) || i >= len(a.L) {
					scalar = false
				}
			}
			ts = append(ts, a.L...)
		}
		if !scalar && !stdReader(name) {
			// it may permute or overwrite the backing arrays of the slices it is given
			for _, a := range args {
				if slt, ok := a.T.Underlying().(*types.Slice); ok && len(a.L) == 4 {
					for _, l := range flatten(slt.Elem()) {
						hn := heapSym("A", typeKey(slt.Elem()), l.Path)
						A := e.heapGet(st, hn, ArrSort(SInt, ArrSort(SInt, l.Sort)))
						row := e.ctx.fresh("std.row", ArrSort(SInt, l.Sort))
						e.ctx.closed(hn, row, st.alloc)
						e.heapSet(st, hn, Store(A, a.L[0], row))
					}
				}
			}
		}
		res := SV{T: rt}
		for i, l := range flatten(rt) {
			if scalar && !isRefType(l.T) {
				res.L = append(res.L, e.ctx.uf(fmt.Sprintf("std:%s#%d", name, i), l.Sort, ts...))
			} else {
				res.L = append(res.L, e.ctx.fresh("std."+name, l.Sort))
			}
		}
		e.wfAssume(st, res)
		return res
	}
	// unknown dependency: fail closed
	e.oblige(st, fnName(fr.fn)+"/unknown-external:"+name, []string{"C14", "C15", "C17", "C18"}, BoolLit(false),
		"call to a dependency without an assumed contract/effect entry at "+e.ld.pos(ci.Pos()))
	st.events = append(st.events, Event{Kind: "extern", Callee: name, Mode: "unknown", SVs: args, Instr: ci})
	e.havocAll(st)
	res := e.freshSV("ext", rt)
	e.wfAssume(st, res)
	return res
}

// pureAccessor: A-types — accessors of go/types (and go/ast, go/token) values
// are deterministic, side-effect free functions of their receiver and
// arguments; index accessors require index < length.
func (e *Exec) pureAccessor(fr *frame, st *State, ci ssa.CallInstruction, f *types.Func, args []SV, rt types.Type) SV {
	sig := f.Type().(*types.Signature)
	var ts []Term
	recvClass := ""
	if len(args) > 0 {
		recvClass = typeKey(args[0].T)
	}
	for i, a := range args {
		if i == 0 && a.Addr != nil && a.Addr.Kind == AObj && len(a.L) == 0 {
			// receiver is an embedded field of the object (e.g. &f.object for *types.Func): the object identifies it
			recvClass = "*" + a.Addr.Class
			args[0] = SV{T: a.T, L: []Term{a.Addr.Ref}}
			a = args[0]
		}
		ts = append(ts, a.L...)
	}
	if sig.Recv() != nil && len(args) > 0 && len(args[0].L) > 0 {
		if _, isIface := sig.Recv().Type().Underlying().(*types.Interface); !isIface {
			e.safety(fr, st, "nil-recv:"+f.Name(), Not(Eq(args[0].L[0], IntLit(0))), ci)
		}
	}
	if lenAcc, ok := apiIndexPre[f.Name()]; ok && len(args) == 2 && len(args[0].L) > 0 && len(args[1].L) > 0 && args[1].L[0].Sort == SInt {
		n := e.ctx.uf("types."+lenAcc, SInt, args[0].L[0])
		if f.Name() == "Term" {
			// A-types: a union has at least one term
			st.pc = append(st.pc, Ge(n, IntLit(1)))
		}
		e.safety(fr, st, "api-pre:"+f.Name(), And(Ge(args[1].L[0], IntLit(0)), Lt(args[1].L[0], n)), ci)
	}
	res := e.pureMethod(f, sig, ts)
	res.T = rt
	if f.Name() == "Variadic" && recvClass == "*go/types.Signature" && len(args) == 1 && len(args[0].L) == 1 && len(res.L) == 1 {
		// A-types: a variadic signature has a last parameter (of slice type)
		params := e.ctx.uf("types.Params", SInt, args[0].L[0])
		st.pc = append(st.pc, Implies(res.L[0], Ge(e.ctx.uf("types.Len", SInt, params), IntLit(1))))
	}
	if nonNilAccessor[f.Name()] && len(res.L) == 1 && res.L[0].Sort == SInt && isRefType(rt) {
		st.pc = append(st.pc, Not(Eq(res.L[0], IntLit(0))))
	}
	for i, l := range flatten(rt) {
		if l.Sort == SInt && !isRefType(l.T) && (strings.HasPrefix(f.Name(), "Len") || strings.HasPrefix(f.Name(), "Num")) {
			st.pc = append(st.pc, Ge(res.L[i], IntLit(0)))
		}
		if l.Sort == SInt && isRefType(l.T) {
			st.pc = append(st.pc, Ge(res.L[i], IntLit(0)))
		}
	}
	// A-types: type expressions are finite trees — structural accessors yield strictly smaller values
	if len(args) > 0 && len(args[0].L) == 1 && len(res.L) == 1 && res.L[0].Sort == SInt {
		structural := map[string]bool{"Elem": true, "Key": true, "At": true, "Params": true, "Results": true, "Field": true, "EmbeddedType": true,
			"ExplicitMethod": true, "Term": true, "TypeArgs": true}
		if structural[f.Name()] || (f.Name() == "Type" && (recvClass == "*go/types.Var" || recvClass == "*go/types.Func" || recvClass == "*go/types.Term")) {
			sz := func(x Term) Term { return e.ctx.uf("types.size", SInt, x) }
			st.pc = append(st.pc, Implies(Not(Eq(res.L[0], IntLit(0))), And(Lt(sz(res.L[0]), sz(args[0].L[0])), Ge(sz(res.L[0]), IntLit(0)))))
		}
	}
	switch f.Name() {
	case "Obj":
		// the object of a named type, alias or type parameter has a non-empty name
		if len(res.L) == 1 {
			st.pc = append(st.pc, Gt(app(SInt, "str.len", e.ctx.uf("types.Name", SString, res.L[0])), IntLit(0)))
		}
	case "String":
		if recvClass == "*go/types.Basic" && len(res.L) == 1 {
			st.pc = append(st.pc, Gt(app(SInt, "str.len", res.L[0]), IntLit(0)))
		}
	case "Method", "ExplicitMethod":
		// the type of an interface method is a signature
		if len(res.L) == 1 {
			st.pc = append(st.pc, Eq(e.dyn(e.ctx.uf("types.Type", SInt, res.L[0])), e.tagOfName("*go/types.Signature")),
				Not(Eq(e.ctx.uf("types.Type", SInt, res.L[0]), IntLit(0))))
		}
	case "Constraint":
		// the underlying type of a constraint is an interface
		if len(res.L) == 1 {
			u := e.ctx.uf("types.Underlying", SInt, res.L[0])
			st.pc = append(st.pc, Eq(e.dyn(u), e.tagOfName("*go/types.Interface")), Not(Eq(u, IntLit(0))))
		}
	}
	// typed results: a non-nil result of static pointer type *T has dynamic type *T
	if pt, ok := rt.(*types.Pointer); ok {
		st.pc = append(st.pc, Implies(Not(Eq(res.L[0], IntLit(0))), Eq(e.dyn(res.L[0]), e.tagOf(pt))))
	}
	st.events = append(st.events, Event{Kind: "extern", Callee: pureName(f), Mode: "pure", SVs: args, Instr: ci, Res: res, Terms: res.L})
	return res
}

func (e *Exec) newError(st *State, msg Term) Term {
	r := e.allocRef(st)
	st.pc = append(st.pc, Eq(e.ctx.uf("errMsg", SString, r), msg), Eq(e.dyn(r), IntLit(-1)))
	return r
}

// strOfIface: the %s rendering of an interface value.
func (e *Exec) strOfIface(st *State, x Term) Term {
	// boxed strings render as themselves, errors as their message, everything else by an uninterpreted function
	return Ite(Eq(e.dyn(x), e.tagOf(types.Typ[types.String])), e.ctx.uf("unbox.String", SString, x),
		Ite(Eq(e.dyn(x), IntLit(-1)), e.ctx.uf("errMsg", SString, x), e.ctx.uf("fmt.str", SString, x)))
}

// sprintf models fmt.Sprintf/Errorf for a constant format using only %s / %d / %v.
func (e *Exec) sprintf(st *State, ci ssa.CallInstruction, format SV, va SV) (Term, bool) {
	c, ok := ci.Common().Args[0].(*ssa.Const)
	if !ok || c.Value == nil || c.Value.Kind() != constant.String {
		return Term{}, false
	}
	f := constant.StringVal(c.Value)
	n, ok := litInt(va.L[2])
	if !ok {
		return Term{}, false
	}
	et := va.T.Underlying().(*types.Slice).Elem()
	var parts []Term
	argi := int64(0)
	lit := strings.Builder{}
	for i := 0; i < len(f); i++ {
		if f[i] == '%' && i+1 < len(f) {
			i++
			if f[i] == '%' {
				lit.WriteByte('%')
				continue
			}
			if lit.Len() > 0 {
				parts = append(parts, StrLit(lit.String()))
				lit.Reset()
			}
			if argi >= n {
				return Term{}, false
			}
			cell := e.load(st, &Addr{Kind: AElem, Class: typeKey(et), Ref: va.L[0], Idx: Add(va.L[1], IntLit(argi)), T: et})
			argi++
			switch f[i] {
			case 's', 'v':
				parts = append(parts, e.strOfIface(st, cell.L[0]))
			case 'd':
				parts = append(parts, app(SString, "str.from_int", e.ctx.uf("unbox.Int", SInt, cell.L[0])))
			default:
				return Term{}, false
			}
			continue
		}
		lit.WriteByte(f[i])
	}
	if lit.Len() > 0 {
		parts = append(parts, StrLit(lit.String()))
	}
	if len(parts) == 0 {
		return StrLit(""), true
	}
	if len(parts) == 1 {
		return parts[0], true
	}
	return app(SString, "str.++", parts...), true
}

func strUF(name string) func(e *Exec, fr *frame, st *State, ci ssa.CallInstruction, args []SV, rt types.Type) SV {
	return func(e *Exec, fr *frame, st *State, ci ssa.CallInstruction, args []SV, rt types.Type) SV {
		var ts []Term
		for _, a := range args {
			ts = append(ts, a.L...)
		}
		r := e.ctx.uf(name, SString, ts...)
		if name == "strings.ToUpper" || name == "strings.ToLower" {
			// A-case: case mapping never yields the empty string for a non-empty one
			st.pc = append(st.pc, Implies(Not(Eq(ts[0], StrLit(""))), Not(Eq(r, StrLit("")))))
		}
		return scalar(rt, r)
	}
}

func (e *Exec) contentId(st *State, s SV) Term {
	A := e.heapGet(st, heapSym("A", "byte", ""), ArrSort(SInt, ArrSort(SInt, SInt)))
	return e.ctx.uf("bytes.content", SInt, Select(A, s.L[0]), s.L[1], s.L[2])
}

// splitModel: result of strings.Split / SplitN as a fresh []string whose cells are given by
// uninterpreted functions with the documented laws for the first separator.
func (e *Exec) splitModel(st *State, s, sep Term, limit int64, rt types.Type) SV {
	r := e.allocRef(st)
	tag := fmt.Sprintf("strings.SplitN%d", limit)
	n := e.ctx.uf(tag+".n", SInt, s, sep)
	at := func(i Term) Term { return e.ctx.uf(tag+".at", SString, s, sep, i) }
	name := heapSym("A", "string", "")
	A := e.heapGet(st, name, ArrSort(SInt, ArrSort(SInt, SString)))
	cells := e.ctx.fresh("splitcells", ArrSort(SInt, SString))
	q := "i!sp"
	st.pc = append(st.pc, Term{fmt.Sprintf("(forall ((%s Int)) (=> (and (<= 0 %s) (< %s %s)) (= (select %s %s) %s)))", q, q, q, n.S, cells.S, q, at(Term{q, SInt}).S), SBool})
	e.heapSet(st, name, Store(A, r, cells))
	has := app(SBool, "str.contains", s, sep)
	idx := app(SInt, "str.indexof", s, sep, IntLit(0))
	seplen := app(SInt, "str.len", sep)
	slen := app(SInt, "str.len", s)
	facts := []Term{
		Ge(n, IntLit(1)),
		Implies(Not(has), And(Eq(n, IntLit(1)), Eq(at(IntLit(0)), s))),
		Implies(And(has, Gt(seplen, IntLit(0))), And(Ge(n, IntLit(2)),
			Eq(at(IntLit(0)), app(SString, "str.substr", s, IntLit(0), idx)))),
		// no part contains the separator, except the last one of a limited split
	}
	if limit == 2 {
		facts = append(facts, Le(n, IntLit(2)),
			Implies(And(has, Gt(seplen, IntLit(0))), Eq(at(IntLit(1)), app(SString, "str.substr", s, Add(idx, seplen), Sub(slen, Add(idx, seplen))))))
	}
	if limit < 0 {
		// unlimited: exactly one occurrence of sep gives two parts, the second being the rest
		rest := app(SString, "str.substr", s, Add(idx, seplen), Sub(slen, Add(idx, seplen)))
		facts = append(facts,
			Implies(And(has, Gt(seplen, IntLit(0)), Not(app(SBool, "str.contains", rest, sep))), And(Eq(n, IntLit(2)), Eq(at(IntLit(1)), rest))),
			Implies(And(has, Gt(seplen, IntLit(0)), app(SBool, "str.contains", rest, sep)), Ge(n, IntLit(3))))
	}
	st.pc = append(st.pc, facts...)
	return SV{T: rt, L: []Term{r, IntLit(0), n, n}}
}

var externs map[string]*ExternModel

func init() {
	externs = map[string]*ExternModel{
		"strings.ToUpper": {"pure", "strings.ToUpper is a deterministic total function (uninterpreted, shared by code and spec: A-case)", strUF("strings.ToUpper")},
		"strings.ToLower": {"pure", "strings.ToLower is a deterministic total function (uninterpreted, shared by code and spec: A-case)", strUF("strings.ToLower")},
		"(*strings.Replacer).Replace": {"pure", "replacer.Replace is a deterministic total function of its argument for the constant package-level replacer (uninterpreted)",
			func(e *Exec, fr *frame, st *State, ci ssa.CallInstruction, args []SV, rt types.Type) SV {
				return scalar(rt, e.ctx.uf("registry.replacer.Replace", SString, args[1].L[0]))
			}},
		"strings.Compare": {"pure", "strings.Compare(a, b) is -1, 0 or +1 by lexicographic byte order (SMT str.<)",
			func(e *Exec, fr *frame, st *State, ci ssa.CallInstruction, args []SV, rt types.Type) SV {
				a, b := args[0].L[0], args[1].L[0]
				return scalar(rt, Ite(Eq(a, b), IntLit(0), Ite(app(SBool, "str.<", a, b), IntLit(-1), IntLit(1))))
			}},
		"cmp.Compare": {"pure", "cmp.Compare(a, b) is -1, 0 or +1 by the natural order of strings / integers",
			func(e *Exec, fr *frame, st *State, ci ssa.CallInstruction, args []SV, rt types.Type) SV {
				a, b := args[0].L[0], args[1].L[0]
				lt := Lt(a, b)
				if a.Sort == SString {
					lt = app(SBool, "str.<", a, b)
				}
				return scalar(rt, Ite(Eq(a, b), IntLit(0), Ite(lt, IntLit(-1), IntLit(1))))
			}},
		"strings.Index": {"pure", "strings.Index(s, sub) is SMT str.indexof(s, sub, 0)",
			func(e *Exec, fr *frame, st *State, ci ssa.CallInstruction, args []SV, rt types.Type) SV {
				return scalar(rt, app(SInt, "str.indexof", args[0].L[0], args[1].L[0], IntLit(0)))
			}},
		"strings.Contains": {"pure", "strings.Contains(s, sub) is SMT str.contains",
			func(e *Exec, fr *frame, st *State, ci ssa.CallInstruction, args []SV, rt types.Type) SV {
				return scalar(rt, app(SBool, "str.contains", args[0].L[0], args[1].L[0]))
			}},
		"strings.HasPrefix": {"pure", "strings.HasPrefix(s, p) is SMT str.prefixof(p, s)",
			func(e *Exec, fr *frame, st *State, ci ssa.CallInstruction, args []SV, rt types.Type) SV {
				return scalar(rt, app(SBool, "str.prefixof", args[1].L[0], args[0].L[0]))
			}},
		"strings.HasSuffix": {"pure", "strings.HasSuffix(s, p) is SMT str.suffixof(p, s)",
			func(e *Exec, fr *frame, st *State, ci ssa.CallInstruction, args []SV, rt types.Type) SV {
				return scalar(rt, app(SBool, "str.suffixof", args[1].L[0], args[0].L[0]))
			}},
		"strings.TrimPrefix": {"pure", "strings.TrimPrefix(s, p): s without the leading p if it has one",
			func(e *Exec, fr *frame, st *State, ci ssa.CallInstruction, args []SV, rt types.Type) SV {
				s, p := args[0].L[0], args[1].L[0]
				return scalar(rt, Ite(app(SBool, "str.prefixof", p, s), app(SString, "str.substr", s, app(SInt, "str.len", p), app(SInt, "str.len", s)), s))
			}},
		"strings.TrimSuffix": {"pure", "strings.TrimSuffix(s, p): s without the trailing p if it has one",
			func(e *Exec, fr *frame, st *State, ci ssa.CallInstruction, args []SV, rt types.Type) SV {
				s, p := args[0].L[0], args[1].L[0]
				return scalar(rt, Ite(app(SBool, "str.suffixof", p, s), app(SString, "str.substr", s, IntLit(0), app(SInt, "-", app(SInt, "str.len", s), app(SInt, "str.len", p))), s))
			}},
		// strings.Builder: the content is a ghost string per builder (A-std)
		"(*strings.Builder).WriteString": {"pure", "strings.Builder accumulates exactly what is written to it; WriteString returns (len(s), nil)",
			func(e *Exec, fr *frame, st *State, ci ssa.CallInstruction, args []SV, rt types.Type) SV {
				e.sbSet(st, args[0], app(SString, "str.++", e.sbGet(st, args[0]), args[1].L[0]))
				return SV{T: rt, L: []Term{app(SInt, "str.len", args[1].L[0]), IntLit(0)}}
			}},
		"(*strings.Builder).WriteByte": {"pure", "WriteByte appends one byte and returns nil",
			func(e *Exec, fr *frame, st *State, ci ssa.CallInstruction, args []SV, rt types.Type) SV {
				e.sbSet(st, args[0], app(SString, "str.++", e.sbGet(st, args[0]), app(SString, "str.from_code", args[1].L[0])))
				return scalar(rt, IntLit(0))
			}},
		"(*strings.Builder).WriteRune": {"pure", "WriteRune appends the UTF-8 encoding of the rune (one byte below 0x80) and returns (size, nil)",
			func(e *Exec, fr *frame, st *State, ci ssa.CallInstruction, args []SV, rt types.Type) SV {
				r := args[1].L[0]
				enc := Ite(And(Ge(r, IntLit(0)), Lt(r, IntLit(128))), app(SString, "str.from_code", r), e.ctx.uf("utf8.encode", SString, r))
				e.sbSet(st, args[0], app(SString, "str.++", e.sbGet(st, args[0]), enc))
				return SV{T: rt, L: []Term{app(SInt, "str.len", enc), IntLit(0)}}
			}},
		"(*strings.Builder).String": {"pure", "String returns the accumulated content",
			func(e *Exec, fr *frame, st *State, ci ssa.CallInstruction, args []SV, rt types.Type) SV {
				return scalar(rt, e.sbGet(st, args[0]))
			}},
		"(*strings.Builder).Len": {"pure", "Len is the length of the accumulated content",
			func(e *Exec, fr *frame, st *State, ci ssa.CallInstruction, args []SV, rt types.Type) SV {
				return scalar(rt, app(SInt, "str.len", e.sbGet(st, args[0])))
			}},
		"(*strings.Builder).Grow": {"pure", "Grow(n) with n >= 0 does not change the content",
			func(e *Exec, fr *frame, st *State, ci ssa.CallInstruction, args []SV, rt types.Type) SV {
				e.safety(fr, st, "api-pre:Grow", Ge(args[1].L[0], IntLit(0)), ci)
				return SV{T: rt}
			}},
		"(*strings.Builder).Reset": {"pure", "Reset empties the builder",
			func(e *Exec, fr *frame, st *State, ci ssa.CallInstruction, args []SV, rt types.Type) SV {
				e.sbSet(st, args[0], StrLit(""))
				return SV{T: rt}
			}},
		"strings.Trim":     {"pure", "strings.Trim is a deterministic total function (uninterpreted)", strUF("strings.Trim")},
		"strings.TrimLeft": {"pure", "strings.TrimLeft is a deterministic total function (uninterpreted)", strUF("strings.TrimLeft")},
		"path/filepath.Dir": {"pure", "filepath.Dir is a deterministic total function (uninterpreted)", strUF("filepath.Dir")},
		"strconv.Itoa": {"pure", "strconv.Itoa(n) is the decimal rendering of n (SMT str.from_int for n >= 0)",
			func(e *Exec, fr *frame, st *State, ci ssa.CallInstruction, args []SV, rt types.Type) SV {
				n := args[0].L[0]
				return scalar(rt, Ite(Ge(n, IntLit(0)), app(SString, "str.from_int", n), e.ctx.uf("strconv.Itoa.neg", SString, n)))
			}},
		"strings.Split": {"alloc", "strings.Split(s, sep): >= 1 parts; no occurrence => [s]; first part is the text before the first separator; exactly one occurrence => two parts",
			func(e *Exec, fr *frame, st *State, ci ssa.CallInstruction, args []SV, rt types.Type) SV {
				return e.splitModel(st, args[0].L[0], args[1].L[0], -1, rt)
			}},
		"strings.SplitN": {"alloc", "strings.SplitN(s, sep, 2): one or two parts: [s] without separator, else [before first sep, after first sep]",
			func(e *Exec, fr *frame, st *State, ci ssa.CallInstruction, args []SV, rt types.Type) SV {
				lim, ok := litInt(args[2].L[0])
				if !ok {
					lim = -1
				}
				return e.splitModel(st, args[0].L[0], args[1].L[0], lim, rt)
			}},
		"strings.Join": {"pure", "strings.Join(a, sep) is a function of the element sequence and sep: \"\" for none, the element for one, a0+sep+a1 for two",
			func(e *Exec, fr *frame, st *State, ci ssa.CallInstruction, args []SV, rt types.Type) SV {
				s, sep := args[0], args[1].L[0]
				A := e.heapGet(st, heapSym("A", "string", ""), ArrSort(SInt, ArrSort(SInt, SString)))
				w := e.ctx.fresh("joinv", ArrSort(SInt, SString))
				q := "i!jn"
				st.pc = append(st.pc, Term{fmt.Sprintf("(forall ((%s Int)) (=> (and (<= 0 %s) (< %s %s)) (= (select %s %s) (select (select %s %s) %s))))",
					q, q, q, s.L[2].S, w.S, q, A.S, s.L[0].S, CellIdx(s.L[1], Term{q, SInt}).S), SBool})
				r := e.ctx.def("join", e.ctx.uf("strings.Join", SString, w, s.L[2], sep))
				st.pc = append(st.pc,
					Implies(Eq(s.L[2], IntLit(0)), Eq(r, StrLit(""))),
					Implies(Eq(s.L[2], IntLit(1)), Eq(r, Select(w, IntLit(0)))),
					Implies(Eq(s.L[2], IntLit(2)), Eq(r, app(SString, "str.++", Select(w, IntLit(0)), sep, Select(w, IntLit(1))))))
				st.joins[r.S] = joinFact{Arr: Select(A, s.L[0]), Off: s.L[1], Len: s.L[2], Sep: sep}
				return scalar(rt, r)
			}},
		"path.Join": {"pure", "path.Join is a deterministic total function of its element sequence (uninterpreted); a single element without dots or double slashes that is non-empty is returned cleaned",
			func(e *Exec, fr *frame, st *State, ci ssa.CallInstruction, args []SV, rt types.Type) SV {
				s := args[0]
				A := e.heapGet(st, heapSym("A", "string", ""), ArrSort(SInt, ArrSort(SInt, SString)))
				// on a slash-separated platform filepath.Join and path.Join are the same function (A-os)
				return scalar(rt, e.ctx.uf("filepath.Join", SString, Select(A, s.L[0]), s.L[1], s.L[2]))
			}},
		"path/filepath.Join": {"pure", "filepath.Join is a deterministic total function of its element sequence (uninterpreted)",
			func(e *Exec, fr *frame, st *State, ci ssa.CallInstruction, args []SV, rt types.Type) SV {
				s := args[0]
				A := e.heapGet(st, heapSym("A", "string", ""), ArrSort(SInt, ArrSort(SInt, SString)))
				return scalar(rt, e.ctx.uf("filepath.Join", SString, Select(A, s.L[0]), s.L[1], s.L[2]))
			}},
		"fmt.Sprintf": {"pure", "fmt.Sprintf with a constant format using only %s/%d/%v is concatenation of the literal text and the arguments' renderings",
			func(e *Exec, fr *frame, st *State, ci ssa.CallInstruction, args []SV, rt types.Type) SV {
				if t, ok := e.sprintf(st, ci, args[0], args[1]); ok {
					return scalar(rt, t)
				}
				return scalar(rt, e.ctx.fresh("sprintf", SString))
			}},
		"fmt.Errorf": {"alloc", "fmt.Errorf returns a fresh non-nil error whose message is the Sprintf rendering",
			func(e *Exec, fr *frame, st *State, ci ssa.CallInstruction, args []SV, rt types.Type) SV {
				msg, ok := e.sprintf(st, ci, args[0], args[1])
				if !ok {
					msg = e.ctx.fresh("errorf", SString)
				}
				return scalar(rt, e.newError(st, msg))
			}},
		"errors.New": {"alloc", "errors.New returns a fresh non-nil error with the given message",
			func(e *Exec, fr *frame, st *State, ci ssa.CallInstruction, args []SV, rt types.Type) SV {
				return scalar(rt, e.newError(st, args[0].L[0]))
			}},
		"errors.Is": {"pure", "errors.Is is a deterministic predicate on (err, target)",
			func(e *Exec, fr *frame, st *State, ci ssa.CallInstruction, args []SV, rt types.Type) SV {
				return scalar(rt, e.ctx.uf("errors.Is", SBool, args[0].L[0], args[1].L[0]))
			}},
		"os.Remove": {"fs-write", "os.Remove affects only the named path; returns nil or an error",
			func(e *Exec, fr *frame, st *State, ci ssa.CallInstruction, args []SV, rt types.Type) SV {
				return scalar(rt, e.ctx.fresh("err.Remove", SInt))
			}},
		"os.MkdirAll": {"fs-write", "os.MkdirAll affects only the named path and its missing parents; returns nil or an error",
			func(e *Exec, fr *frame, st *State, ci ssa.CallInstruction, args []SV, rt types.Type) SV {
				return scalar(rt, e.ctx.fresh("err.MkdirAll", SInt))
			}},
		"os.WriteFile": {"fs-write", "os.WriteFile affects only the named path; returns nil or an error",
			func(e *Exec, fr *frame, st *State, ci ssa.CallInstruction, args []SV, rt types.Type) SV {
				return scalar(rt, e.ctx.fresh("err.WriteFile", SInt))
			}},
		"(*bytes.Buffer).Bytes": {"pure", "bytes.Buffer.Bytes returns the buffer's current content",
			func(e *Exec, fr *frame, st *State, ci ssa.CallInstruction, args []SV, rt types.Type) SV {
				c := e.heapGet(st, heapSym("H", "bytes.Buffer", ".content"), ArrSort(SInt, SInt))
				id := Select(c, args[0].L[0])
				res := SV{T: rt, L: []Term{
					e.ctx.uf("buf.bytes.arr", SInt, id), IntLit(0), e.ctx.uf("buf.bytes.len", SInt, id), e.ctx.uf("buf.bytes.cap", SInt, id)}}
				e.wfAssume(st, res)
				return res
			}},
		"io.Writer.Write": {"io-write", "Write on an io.Writer writes to that writer only; returns (n, err)",
			func(e *Exec, fr *frame, st *State, ci ssa.CallInstruction, args []SV, rt types.Type) SV {
				res := e.freshSV("write", rt)
				c := e.heapGet(st, heapSym("H", "bytes.Buffer", ".content"), ArrSort(SInt, SInt))
				e.heapSet(st, heapSym("H", "bytes.Buffer", ".content"), Store(c, args[0].L[0], e.ctx.fresh("content", SInt)))
				return res
			}},
		"(*text/template.Template).Execute": {"io-write", "template execution writes only to the given writer, deterministically as a function of template and data (A-tmpl); returns nil or an error",
			func(e *Exec, fr *frame, st *State, ci ssa.CallInstruction, args []SV, rt types.Type) SV {
				c := e.heapGet(st, heapSym("H", "bytes.Buffer", ".content"), ArrSort(SInt, SInt))
				var ds []Term
				ds = append(ds, args[0].L...)
				e.heapSet(st, heapSym("H", "bytes.Buffer", ".content"), Store(c, args[1].L[0], e.ctx.fresh("content", SInt)))
				return scalar(rt, e.ctx.fresh("err.Execute", SInt))
			}},
		"text/template.New": {"alloc", "template.New returns a fresh non-nil template",
			func(e *Exec, fr *frame, st *State, ci ssa.CallInstruction, args []SV, rt types.Type) SV {
				r := e.allocRef(st)
				st.pc = append(st.pc, Gt(r, IntLit(0)))
				return scalar(rt, r)
			}},
		"(*text/template.Template).Funcs": {"pure", "Funcs returns its receiver",
			func(e *Exec, fr *frame, st *State, ci ssa.CallInstruction, args []SV, rt types.Type) SV {
				return scalar(rt, args[0].L[0])
			}},
		"(*text/template.Template).Parse": {"pure", "Parse returns (receiver, nil) or (nil, error), deterministically",
			func(e *Exec, fr *frame, st *State, ci ssa.CallInstruction, args []SV, rt types.Type) SV {
				errT := e.ctx.uf("template.Parse.err", SInt, args[1].L[0])
				return SV{T: rt, L: []Term{Ite(Eq(errT, IntLit(0)), args[0].L[0], IntLit(0)), errT}}
			}},
		"go/format.Source": {"pure", "format.Source is a deterministic function of the source bytes; returns (formatted, nil) or (nil, err) (A-fmt)",
			func(e *Exec, fr *frame, st *State, ci ssa.CallInstruction, args []SV, rt types.Type) SV {
				cid := e.contentId(st, args[0])
				fails := e.ctx.uf("format.Source.fails", SBool, cid)
				res := e.freshSV("fmtsrc", rt)
				e.wfAssume(st, res)
				errT := res.L[4]
				rs := SV{T: args[0].T, L: res.L[:4]}
				st.pc = append(st.pc, Eq(Not(Eq(errT, IntLit(0))), fails),
					Implies(Not(fails), Eq(e.contentId(st, rs), e.ctx.uf("format.Source", SInt, cid))),
					Implies(fails, Eq(res.L[0], IntLit(0))))
				return res
			}},
		"golang.org/x/tools/imports.Process": {"pure", "imports.Process is a deterministic function of (filename, source bytes, options); returns (out, nil) or (nil, err) (A-fmt)",
			func(e *Exec, fr *frame, st *State, ci ssa.CallInstruction, args []SV, rt types.Type) SV {
				cid := e.contentId(st, args[1])
				opt := args[2].L[0]
				// options are read from the heap at call time
				var optTerms []Term
				if pt, ok := args[2].T.Underlying().(*types.Pointer); ok {
					ov := e.load(st, &Addr{Kind: AObj, Class: typeKey(pt.Elem()), Ref: opt, T: pt.Elem()})
					optTerms = ov.L
					st.events[len(st.events)-1].SVs = append(st.events[len(st.events)-1].SVs, ov)
				}
				key := append([]Term{args[0].L[0], cid}, optTerms...)
				fails := e.ctx.uf("imports.Process.fails", SBool, key...)
				res := e.freshSV("impproc", rt)
				e.wfAssume(st, res)
				errT := res.L[4]
				rs := SV{T: args[1].T, L: res.L[:4]}
				st.pc = append(st.pc, Eq(Not(Eq(errT, IntLit(0))), fails),
					Implies(Not(fails), Eq(e.contentId(st, rs), e.ctx.uf("imports.Process", SInt, key...))),
					Implies(fails, Eq(res.L[0], IntLit(0))))
				return res
			}},
		"go/types.NewPackage": {"alloc", "types.NewPackage(path, name) returns a fresh package object with that path and name",
			func(e *Exec, fr *frame, st *State, ci ssa.CallInstruction, args []SV, rt types.Type) SV {
				r := e.allocRef(st)
				st.pc = append(st.pc, Eq(e.ctx.uf("types.Path", SString, r), args[0].L[0]), Eq(e.ctx.uf("types.Name", SString, r), args[1].L[0]))
				return scalar(rt, r)
			}},
		"go/types.NewParam": {"alloc", "types.NewParam(pos, pkg, name, typ) returns a fresh variable object with that package, name and type",
			func(e *Exec, fr *frame, st *State, ci ssa.CallInstruction, args []SV, rt types.Type) SV {
				r := e.allocRef(st)
				st.pc = append(st.pc, Eq(e.ctx.uf("types.Pkg", SInt, r), args[1].L[0]), Eq(e.ctx.uf("types.Name", SString, r), args[2].L[0]),
					Eq(e.ctx.uf("types.Type", SInt, r), args[3].L[0]))
				return scalar(rt, r)
			}},
		"go/types.IsInterface": {"pure", "types.IsInterface(t) <=> t.Underlying() is a *types.Interface (A-types)",
			func(e *Exec, fr *frame, st *State, ci ssa.CallInstruction, args []SV, rt types.Type) SV {
				u := e.ctx.uf("types.Underlying", SInt, args[0].L[0])
				return scalar(rt, And(Not(Eq(u, IntLit(0))), Eq(e.dyn(u), e.tagOfName("*go/types.Interface"))))
			}},
		"go/types.TypeString": {"pure", "types.TypeString(t, qf) is a deterministic function of t and of qf's results on the packages t refers to (A-typestring)",
			func(e *Exec, fr *frame, st *State, ci ssa.CallInstruction, args []SV, rt types.Type) SV {
				var ts []Term
				ts = append(ts, args[0].L[0])
				if args[1].Fn != nil {
					for _, b := range args[1].Fn.Bindings {
						ts = append(ts, b.L...)
					}
				} else {
					ts = append(ts, args[1].L...)
				}
				return scalar(rt, e.ctx.uf("types.TypeString", SString, ts...))
			}},
		"golang.org/x/tools/go/packages.Load": {"fs-read", "packages.Load reads the file system and runs go list as configured by the given Config (it writes nothing in the source tree when go.mod/go.sum are complete and no build flag asks for it); every returned package is non-nil; a package without errors has type information and well-formed syntax trees (A-load)",
			func(e *Exec, fr *frame, st *State, ci ssa.CallInstruction, args []SV, rt types.Type) SV {
				// expose the configuration the loader is called with
				if pt, ok := args[0].T.Underlying().(*types.Pointer); ok && len(args[0].L) == 1 {
					cfg := e.load(st, &Addr{Kind: AObj, Class: typeKey(pt.Elem()), Ref: args[0].L[0], T: pt.Elem()})
					st.events[len(st.events)-1].SVs = append(st.events[len(st.events)-1].SVs, cfg)
				}
				// the loader allocates the packages, their syntax trees and type information
				allocPre := st.alloc
				na := e.ctx.fresh("alloc", SInt)
				st.pc = append(st.pc, Ge(na, st.alloc))
				st.alloc = na
				e.markFrame(st, allocPre, "H:golang.org/x/tools/go/packages.", "A:golang.org/x/tools/go/packages.", "A:*golang.org/x/tools/go/packages.", "H:go/ast.", "A:*go/ast.", "A:go/ast.")
				res := e.freshSV("load", rt)
				e.wfAssume(st, res)
				tt, ok := rt.(*types.Tuple)
				if ok && tt.Len() == 2 {
					pk := SV{T: tt.At(0).Type(), L: res.L[:4]}
					if ex, err := parseSpecExpr("forall(i, 0 <= i && i < len(pkgs) ==> pkgs[i] != nil && (len(pkgs[i].Errors) == 0 ==> pkgs[i].Types != nil && astOk(pkgs[i].Syntax)))"); err == nil {
						if g, err := e.evalSpecBool(ex, &specEnv{st: st, old: st, vars: map[string]SV{"pkgs": pk}}); err == nil {
							st.pc = append(st.pc, g)
						} else {
							e.notes = appendUnique(e.notes, "A-load facts not available: "+err.Error())
						}
					}
				}
				return res
			}},
		"os.Exit": {"exit", "os.Exit terminates the process with the given status",
			func(e *Exec, fr *frame, st *State, ci ssa.CallInstruction, args []SV, rt types.Type) SV {
				st.exited = true
				return SV{T: rt}
			}},
		"flag.StringVar": {"flag", "flag.StringVar registers a string flag: after flag.Parse the variable holds an arbitrary string", flagVarModel},
		"flag.BoolVar":   {"flag", "flag.BoolVar registers a bool flag: after flag.Parse the variable holds an arbitrary bool", flagVarModel},
		"flag.Bool": {"flag", "flag.Bool returns a fresh pointer whose target holds an arbitrary bool after flag.Parse",
			func(e *Exec, fr *frame, st *State, ci ssa.CallInstruction, args []SV, rt types.Type) SV {
				r := e.allocRef(st)
				a := &Addr{Kind: AObj, Class: "bool", Ref: r, T: types.Typ[types.Bool]}
				e.store(st, a, e.freshSV("flag", types.Typ[types.Bool]))
				return scalar(rt, r)
			}},
		"flag.Parse": {"flag", "flag.Parse reads os.Args only",
			func(e *Exec, fr *frame, st *State, ci ssa.CallInstruction, args []SV, rt types.Type) SV { return SV{T: rt} }},
		"flag.Args": {"flag", "flag.Args returns the non-flag arguments",
			func(e *Exec, fr *frame, st *State, ci ssa.CallInstruction, args []SV, rt types.Type) SV {
				res := e.freshSV("flagargs", rt)
				e.wfAssume(st, res)
				return res
			}},
		"flag.PrintDefaults": {"stdout", "flag.PrintDefaults writes the flag help to the flag output (stderr by default)",
			func(e *Exec, fr *frame, st *State, ci ssa.CallInstruction, args []SV, rt types.Type) SV { return SV{T: rt} }},
		"fmt.Println": {"stdout", "fmt.Println writes to standard output",
			func(e *Exec, fr *frame, st *State, ci ssa.CallInstruction, args []SV, rt types.Type) SV { return e.freshSV("println", rt) }},
		"fmt.Printf": {"stdout", "fmt.Printf writes to standard output",
			func(e *Exec, fr *frame, st *State, ci ssa.CallInstruction, args []SV, rt types.Type) SV { return e.freshSV("printf", rt) }},
		"fmt.Fprintln": {"io-write", "fmt.Fprintln writes its operands to the given writer only",
			func(e *Exec, fr *frame, st *State, ci ssa.CallInstruction, args []SV, rt types.Type) SV {
				// expose the first operand for contracts
				va := args[1]
				if et, ok := va.T.Underlying().(*types.Slice); ok {
					if n, ok := litInt(va.L[2]); ok && n >= 1 {
						cell := e.load(st, &Addr{Kind: AElem, Class: typeKey(et.Elem()), Ref: va.L[0], Idx: CellIdx(va.L[1], IntLit(0)), T: et.Elem()})
						st.events[len(st.events)-1].SVs = append(st.events[len(st.events)-1].SVs, cell)
					}
				}
				return e.freshSV("fprintln", rt)
			}},
		"strings.NewReplacer": {"alloc", "strings.NewReplacer returns a fresh non-nil replacer",
			func(e *Exec, fr *frame, st *State, ci ssa.CallInstruction, args []SV, rt types.Type) SV {
				return scalar(rt, e.allocRef(st))
			}},
		"sort.Slice": {"pure", "sort.Slice permutes the slice so that it is sorted by less (permutation with inverse; A-os)", sortSliceModel},
	}
}

func flagVarModel(e *Exec, fr *frame, st *State, ci ssa.CallInstruction, args []SV, rt types.Type) SV {
	a := e.addrOf(st, args[0], nil, "", nil)
	if a == nil {
		e.abort(st, "flag variable target is not an address")
		return SV{T: rt}
	}
	e.store(st, a, e.freshSV("flag", a.T))
	return SV{T: rt}
}

func (e *Exec) tagOfName(key string) Term {
	n, ok := e.tags[key]
	if !ok {
		n = int64(len(e.tags) + 1)
		e.tags[key] = n
	}
	return IntLit(n)
}

// sortSliceModel: the cells [off, off+len) of the backing array are permuted
// (bijection pi with inverse) and sorted by the closure's contract.
func sortSliceModel(e *Exec, fr *frame, st *State, ci ssa.CallInstruction, args []SV, rt types.Type) SV {
	x := args[0]
	less := args[1]
	if less.Fn == nil {
		e.abort(st, "sort.Slice with a non-literal less function")
		return SV{T: rt}
	}
	// the slice argument is boxed in an interface: recover the original slice value
	mi, ok := ci.Common().Args[0].(*ssa.MakeInterface)
	if !ok {
		e.abort(st, "sort.Slice argument shape")
		return SV{T: rt}
	}
	s := e.val(st, mi.X)
	_ = x
	slt, ok := s.T.Underlying().(*types.Slice)
	if !ok || len(flatten(slt.Elem())) != 1 {
		e.abort(st, "sort.Slice over unsupported element type")
		return SV{T: rt}
	}
	l := flatten(slt.Elem())[0]
	name := heapSym("A", typeKey(slt.Elem()), l.Path)
	A := e.heapGet(st, name, ArrSort(SInt, ArrSort(SInt, l.Sort)))
	oldCells := e.ctx.def("sort.old", Select(A, s.L[0]))
	newCells := e.ctx.fresh("sort.new", ArrSort(SInt, l.Sort))
	e.ctx.n++
	pi := sym(fmt.Sprintf("sort.pi!%d", e.ctx.n))
	pinv := sym(fmt.Sprintf("sort.pinv!%d", e.ctx.n))
	e.ctx.decls = append(e.ctx.decls, fmt.Sprintf("(declare-fun %s (Int) Int)", pi), fmt.Sprintf("(declare-fun %s (Int) Int)", pinv))
	off, n := s.L[1].S, s.L[2].S
	st.pc = append(st.pc,
		Term{fmt.Sprintf("(forall ((i Int)) (=> (and (<= 0 i) (< i %s)) (and (<= 0 (%s i)) (< (%s i) %s) (= (%s (%s i)) i) (= (select %s %s) (select %s %s)))))",
			n, pi, pi, n, pinv, pi, newCells.S, CellIdx(s.L[1], Term{"i", SInt}).S, oldCells.S, CellIdx(s.L[1], Term{"(" + pi + " i)", SInt}).S), SBool},
		Term{fmt.Sprintf("(forall ((j Int)) (=> (and (<= 0 j) (< j %s)) (and (<= 0 (%s j)) (< (%s j) %s) (= (%s (%s j)) j) (= (select %s %s) (select %s %s)))))",
			n, pinv, pinv, n, pi, pinv, newCells.S, CellIdx(s.L[1], Term{"(" + pinv + " j)", SInt}).S, oldCells.S, CellIdx(s.L[1], Term{"j", SInt}).S), SBool},
		Term{fmt.Sprintf("(forall ((i Int)) (=> (or (< i %s) (>= i (+ %s %s))) (= (select %s i) (select %s i))))", off, off, n, newCells.S, oldCells.S), SBool})
	e.heapSet(st, name, Store(A, s.L[0], newCells))
	// sortedness from the closure's contract: forall i < j: !less(j, i)
	sp := e.specs.Lookup(fnName(less.Fn.Fn))
	if sp == nil || len(sp.Ensures) == 0 {
		e.oblige(st, fnName(e.top)+"/sort-comparator-contract", e.propsFor(fr, "safety"), BoolLit(false), fmt.Sprintf("closure %s passed to sort.Slice has no contract 'ensures r == ...': the order it establishes is unknown to the proof", fnName(less.Fn.Fn)))
		return SV{T: rt}
	}
	e.ctx.n++
	qi, qj := Term{sym(fmt.Sprintf("i!q.s%d", e.ctx.n)), SInt}, Term{sym(fmt.Sprintf("j!q.s%d", e.ctx.n)), SInt}
	vars := map[string]SV{}
	fn := less.Fn.Fn
	vars[fn.Params[0].Name()] = scalar(types.Typ[types.Int], qj)
	vars[fn.Params[1].Name()] = scalar(types.Typ[types.Int], qi)
	for k, fv := range fn.FreeVars {
		if k < len(less.Fn.Bindings) {
			if a := e.addrOf(st, less.Fn.Bindings[k], nil, "", nil); a != nil {
				vars[fv.Name()] = e.load(st, a)
			}
		}
	}
	r := e.ctx.fresh("less!q", SBool)
	vars["r"] = scalar(types.Typ[types.Bool], r)
	env := &specEnv{into: st, st: st, old: st, vars: vars, oldVars: vars, pkg: pkgOf(fn)}
	var defs []Term
	for _, en := range sp.Ensures {
		g, err := e.evalSpecBool(en.Expr, env)
		if err != nil {
			e.oblige(st, fnName(e.top)+"/sort-comparator-contract", e.propsFor(fr, "safety"), BoolLit(false), fmt.Sprintf("the contract of the closure passed to sort.Slice cannot be evaluated on the current code: %v", err))
			return SV{T: rt}
		}
		defs = append(defs, g)
	}
	// exists r. defs(r) && !r  — the closure contract must be definitional (r == E): substitute by quantifying r
	st.pc = append(st.pc, Term{fmt.Sprintf("(forall ((%s Int) (%s Int) (%s Bool)) (=> (and (<= 0 %s) (< %s %s) (< %s %s) %s) (not %s)))",
		qi.S, qj.S, r.S, qi.S, qi.S, qj.S, qj.S, n, And(defs...).S, r.S), SBool})
	return SV{T: rt}
}

func init() {
	// the strings package forwards to internal/stringslite since go1.23
	for _, n := range []string{"Index", "HasPrefix", "HasSuffix", "TrimPrefix", "TrimSuffix"} {
		if m, ok := externs["strings."+n]; ok {
			externs["internal/stringslite."+n] = m
		}
	}
}

