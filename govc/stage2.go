package main

// Stage 2: the generated mock is brought under the same verifier. The real
// moq (built from /repo's working tree) is run on the schema packages; the
// emitted Go is type-checked (back end: go/types) and every generated function
// is executed symbolically against the mock contract schema kept in
// /repo/internal/template/zz_contracts_verif.go.

import (
	"bytes"
	"fmt"
	"go/ast"
	"go/constant"
	"go/format"
	"go/parser"
	"go/token"
	"go/types"
	"os"
	"os/exec"
	"path/filepath"
	"sort"
	"strings"
	"sync"
	"time"

	"golang.org/x/tools/go/packages"
	"golang.org/x/tools/go/ssa"
)

type Scenario struct {
	Name       string
	Stub       bool
	SkipEnsure bool
	Resets     bool
	PkgMode    string // "" in place | "same" explicit same name | "other" | "test"
	Fmt        string
	Src        string   // schema package directory
	Args       []string // interface arguments
	Seed       int64    // seed of a generated schema package (Src "rnd")
	OnlyProps  []string // restrict the properties this scenario's obligations serve (known-finding witnesses)
	// filled by the run
	Dir      string // directory moq ran in
	OutFile  string
	OutPkg   string // import path of the destination package
	SrcPkg   string
	ExitCode int
	Stderr   string
	Output   []byte
	WallS    float64
	// second run with the first output left in place (in-package destinations only)
	RegenRan  bool
	RegenExit int
	Regen     []byte
	RegenErr  string
}

func (s *Scenario) flagString() string {
	var f []string
	if s.Src == "rnd" {
		f = append(f, fmt.Sprintf("rnd%d", s.Seed))
	}
	if s.Stub {
		f = append(f, "stub")
	}
	if s.SkipEnsure {
		f = append(f, "skip-ensure")
	}
	if s.Resets {
		f = append(f, "with-resets")
	}
	if s.PkgMode != "" {
		f = append(f, "pkg="+s.PkgMode)
	}
	if s.Fmt != "" {
		f = append(f, "fmt="+s.Fmt)
	}
	if len(f) == 0 {
		return "default"
	}
	return strings.Join(f, ",")
}

var defaultArgs = []string{"Schema", "Emb:EmbeddedMock", "Empty", "GSchema", "GOne", "GLower", "GClash"}

var verifSeed int64

func scenarios(tier string) (out []*Scenario) {
	id := 0
	defer func() {
		if tier != "thorough" {
			return
		}
		// seed-driven schema variants: three generated packages, all flag combinations in place, two elsewhere
		for v := int64(0); v < 3; v++ {
			seed := verifSeed*1000 + v
			for _, stub := range []bool{false, true} {
				for _, skip := range []bool{false, true} {
					for _, resets := range []bool{false, true} {
						s := &Scenario{Name: fmt.Sprintf("r%02d", len(out)), Src: "rnd", Seed: seed, Stub: stub, SkipEnsure: skip, Resets: resets, Args: []string{"generated"}}
						out = append(out, s)
					}
				}
			}
			out = append(out, &Scenario{Name: fmt.Sprintf("r%02d", len(out)), Src: "rnd", Seed: seed, PkgMode: "other", Args: []string{"generated"}},
				&Scenario{Name: fmt.Sprintf("r%02d", len(out)+1), Src: "rnd", Seed: seed, PkgMode: "test", Stub: true, Resets: true, Args: []string{"generated"}})
		}
	}()
	add := func(s Scenario) {
		s.Name = fmt.Sprintf("c%02d", id)
		id++
		if s.Src == "" {
			s.Src = "sch"
		}
		if s.Args == nil {
			s.Args = defaultArgs
		}
		out = append(out, &s)
	}
	for _, stub := range []bool{false, true} {
		for _, skip := range []bool{false, true} {
			for _, resets := range []bool{false, true} {
				add(Scenario{Stub: stub, SkipEnsure: skip, Resets: resets})
			}
		}
	}
	// destination modes
	add(Scenario{PkgMode: "other"})
	add(Scenario{PkgMode: "other", Stub: true, Resets: true, SkipEnsure: true})
	add(Scenario{PkgMode: "test"})
	add(Scenario{PkgMode: "same"})
	// formatters
	add(Scenario{Fmt: "noop"})
	add(Scenario{Fmt: "goimports"})
	add(Scenario{Fmt: "gofmt"})
	// single-interface generations (independence, C20)
	add(Scenario{Args: []string{"Schema"}})
	add(Scenario{Args: []string{"GSchema"}})
	add(Scenario{Args: []string{"Emb:EmbeddedMock"}})
	add(Scenario{Args: []string{"GSchema", "Schema"}, Stub: true})
	// naming shapes and variadic tails without results (in place: Named has an unexported method)
	for _, f := range [][3]bool{{false, false, false}, {true, false, true}, {false, true, true}, {true, true, false}} {
		add(Scenario{Args: []string{"Named", "Logger"}, Stub: f[0], SkipEnsure: f[1], Resets: f[2]})
	}
	add(Scenario{Args: []string{"Logger"}, PkgMode: "other", Stub: true})
	// mocks sharing method objects: the same interface twice and an embedded interface next to its embedder
	add(Scenario{Args: []string{"Base", "Emb:EmbeddedMock", "Base:BaseTwo"}})
	add(Scenario{Args: []string{"Emb:EmbeddedMock", "Base", "Schema", "Schema:SecondSchemaMock"}, Stub: true, Resets: true})
	// interfaces whose signatures mention no source-package type: with -skip-ensure nothing may import the source package
	add(Scenario{Args: []string{"Plain", "Empty"}, PkgMode: "other", SkipEnsure: true})
	add(Scenario{Args: []string{"Plain"}, PkgMode: "other", SkipEnsure: true, Stub: true, Resets: true, Fmt: "noop"})
	// only method-less interfaces, generated elsewhere: the import block holds nothing but the source package (for the self-check line)
	add(Scenario{Args: []string{"Empty"}, PkgMode: "other"})
	add(Scenario{Args: []string{"Empty"}, PkgMode: "other", Fmt: "noop"})
	add(Scenario{Args: []string{"Empty"}, PkgMode: "other", Fmt: "goimports"})
	// alias-declared interface literals with same-named methods (shared full method names)
	add(Scenario{Args: []string{"AliasA", "AliasB"}})
	add(Scenario{Args: []string{"AliasB", "AliasA"}, Stub: true, SkipEnsure: true, Resets: true})
	// an alias of an instantiated generic interface (not generic itself)
	add(Scenario{Args: []string{"AliasInst", "GOne"}})
	add(Scenario{Args: []string{"AliasInst"}, PkgMode: "other", SkipEnsure: true, Stub: true})
	// witnesses of known findings (see /verif/KNOWN_FINDINGS.jsonl)
	add(Scenario{Src: "kfcomparable", Args: []string{"Keyed"}, OnlyProps: []string{"C09"}})
	add(Scenario{Src: "kfnames", Args: []string{"KFD7"}, OnlyProps: []string{"C12"}})
	add(Scenario{Src: "kfnames", Args: []string{"KFD3"}, OnlyProps: []string{"C12"}})
	add(Scenario{Src: "kfnames", Args: []string{"KFD11"}, OnlyProps: []string{"C13"}})
	add(Scenario{Src: "kfcons", Args: []string{"KFD17"}, OnlyProps: []string{"C09"}})
	add(Scenario{Src: "kfcons", Args: []string{"KFD18"}, OnlyProps: []string{"C09"}})
	add(Scenario{Src: "kfalias", Args: []string{"KFD13"}, OnlyProps: []string{"C11"}})
	add(Scenario{Src: "kfalias", Args: []string{"KFD19"}, OnlyProps: []string{"C11"}})
	add(Scenario{Src: "kfalias", Args: []string{"KFD20"}, OnlyProps: []string{"C12"}})
	add(Scenario{Src: "kfalias", Args: []string{"KFD15"}, OnlyProps: []string{"C15"}})
	add(Scenario{Src: "kfgi", Args: []string{"KFGI"}, OnlyProps: []string{"C16"}})
	add(Scenario{Src: "kfgi", Args: []string{"KFGI"}, OnlyProps: []string{"C16"}, Fmt: "goimports"})
	return out
}

type Stage2 struct {
	Root      string // scratch dir
	ModDir    string
	Scen      []*Scenario
	ld        *Loaded
	pkgErrs   map[string][]string // pkg path -> type errors
	specs     *SpecDB
	obls      []*Obligation
	tObls     []*TypeOb
	errs      []string
	buildS    float64
	moqS      float64
	loadS     float64
	moqBin    string
	cleanup   func()
	genIndex  map[string]*mockInfo // obligation name prefix (gen[...]/Mock.Func) -> mock
}

// TypeOb is an obligation discharged by go/types / go/ast / go/format on the
// mechanically extracted instances (labelled instance-level, arity-bounded).
type TypeOb struct {
	Name   string
	Props  []string
	OK     bool
	Detail string
	Scen   string
}

func copyDir(src, dst string, rewrite func(string) string) error {
	return filepath.Walk(src, func(p string, info os.FileInfo, err error) error {
		if err != nil {
			return err
		}
		rel, _ := filepath.Rel(src, p)
		target := filepath.Join(dst, rel)
		if info.IsDir() {
			return os.MkdirAll(target, 0o755)
		}
		data, err := os.ReadFile(p)
		if err != nil {
			return err
		}
		if rewrite != nil {
			data = []byte(rewrite(string(data)))
		}
		return os.WriteFile(target, data, 0o644)
	})
}

func goEnv() []string {
	env := os.Environ()
	out := env[:0:0]
	for _, kv := range env {
		if strings.HasPrefix(kv, "GOFLAGS=") || strings.HasPrefix(kv, "GOPROXY=") || strings.HasPrefix(kv, "GOSUMDB=") || strings.HasPrefix(kv, "GOTOOLCHAIN=") {
			continue
		}
		out = append(out, kv)
	}
	return append(out, "GOFLAGS=-mod=mod", "GOPROXY=off")
}

// PrepareStage2 builds moq from repo, runs it on every scenario and loads the results.
func PrepareStage2(repo, schemaDir string, scen []*Scenario, specs *SpecDB) (*Stage2, error) {
	root, err := os.MkdirTemp("", "verif-stage2-")
	if err != nil {
		return nil, err
	}
	s2 := &Stage2{Root: root, Scen: scen, specs: specs, pkgErrs: map[string][]string{}}
	s2.cleanup = func() { os.RemoveAll(root) }
	t0 := time.Now()
	s2.moqBin = filepath.Join(root, "moq")
	cmd := exec.Command("go", "build", "-o", s2.moqBin, ".")
	cmd.Dir = repo
	cmd.Env = goEnv()
	if out, err := cmd.CombinedOutput(); err != nil {
		s2.cleanup()
		return nil, fmt.Errorf("building moq from %s failed: %v\n%s", repo, err, out)
	}
	s2.buildS = time.Since(t0).Seconds()
	s2.ModDir = filepath.Join(root, "m")
	os.MkdirAll(s2.ModDir, 0o755)
	gomod, _ := os.ReadFile(filepath.Join(schemaDir, "go.mod"))
	os.WriteFile(filepath.Join(s2.ModDir, "go.mod"), gomod, 0o644)
	for _, d := range []string{"dep", "dep2", "depkf"} {
		if err := copyDir(filepath.Join(schemaDir, d), filepath.Join(s2.ModDir, d), nil); err != nil {
			return nil, err
		}
	}
	t1 := time.Now()
	var wg sync.WaitGroup
	sem := make(chan struct{}, 12)
	for _, sc := range scen {
		sc.Dir = filepath.Join(s2.ModDir, sc.Name, sc.Src)
		if strings.HasPrefix(sc.Src, "rnd") {
			ifs, err := genRandomSchema(sc.Seed, sc.Dir)
			if err != nil {
				return nil, err
			}
			sc.Args = ifs
		} else if err := copyDir(filepath.Join(schemaDir, sc.Src), sc.Dir, nil); err != nil {
			return nil, err
		}
		sc.SrcPkg = "ex.com/schema/" + sc.Name + "/" + sc.Src
		wg.Add(1)
		go func(sc *Scenario) {
			defer wg.Done()
			sem <- struct{}{}
			defer func() { <-sem }()
			s2.runMoq(sc)
		}(sc)
	}
	wg.Wait()
	s2.moqS = time.Since(t1).Seconds()
	t2 := time.Now()
	if err := s2.load(); err != nil {
		return s2, err
	}
	s2.loadS = time.Since(t2).Seconds()
	return s2, nil
}

func (s2 *Stage2) runMoq(sc *Scenario) {
	args := []string{}
	if sc.Stub {
		args = append(args, "-stub")
	}
	if sc.SkipEnsure {
		args = append(args, "-skip-ensure")
	}
	if sc.Resets {
		args = append(args, "-with-resets")
	}
	if sc.Fmt != "" {
		args = append(args, "-fmt", sc.Fmt)
	}
	srcName := filepath.Base(sc.Src)
	switch sc.PkgMode {
	case "":
		sc.OutFile = filepath.Join(sc.Dir, "zz_mock_gen.go")
		sc.OutPkg = sc.SrcPkg
	case "same":
		args = append(args, "-pkg", srcName)
		sc.OutFile = filepath.Join(sc.Dir, "zz_mock_gen.go")
		sc.OutPkg = sc.SrcPkg
	case "other":
		args = append(args, "-pkg", "other")
		sc.OutFile = filepath.Join(sc.Dir, "other", "zz_mock_gen.go")
		sc.OutPkg = sc.SrcPkg + "/other"
	case "test":
		args = append(args, "-pkg", srcName+"_test")
		sc.OutFile = filepath.Join(sc.Dir, "zz_mock_gen_test.go")
		sc.OutPkg = sc.SrcPkg + "_test"
	}
	args = append(args, "-out", sc.OutFile, ".")
	args = append(args, sc.Args...)
	t := time.Now()
	cmd := exec.Command(s2.moqBin, args...)
	cmd.Dir = sc.Dir
	cmd.Env = goEnv()
	var stderr, stdout bytes.Buffer
	cmd.Stderr = &stderr
	cmd.Stdout = &stdout
	err := cmd.Run()
	sc.WallS = time.Since(t).Seconds()
	sc.Stderr = stderr.String()
	if err != nil {
		sc.ExitCode = 1
		if ee, ok := err.(*exec.ExitError); ok {
			sc.ExitCode = ee.ExitCode()
		}
	}
	sc.Output, _ = os.ReadFile(sc.OutFile)
	if sc.ExitCode != 0 || sc.PkgMode == "other" || len(sc.Output) == 0 {
		return
	}
	// C15: the same command again, with the file it wrote still part of the package
	cmd2 := exec.Command(s2.moqBin, args...)
	cmd2.Dir = sc.Dir
	cmd2.Env = goEnv()
	var stderr2 bytes.Buffer
	cmd2.Stderr = &stderr2
	sc.RegenRan = true
	if err := cmd2.Run(); err != nil {
		sc.RegenExit = 1
		sc.RegenErr = stderr2.String()
	}
	sc.Regen, _ = os.ReadFile(sc.OutFile)
	if !bytes.Equal(sc.Regen, sc.Output) {
		os.WriteFile(sc.OutFile, sc.Output, 0o644) // everything else is decided on the first output
	}
}

func (s2 *Stage2) load() error {
	cfg := &packages.Config{Mode: packages.LoadAllSyntax, Dir: s2.ModDir, Env: goEnv(), Tests: true}
	pkgs, err := packages.Load(cfg, "./...")
	if err != nil {
		return err
	}
	// keep, for packages with test variants, the most complete one per ID family
	var keep []*packages.Package
	for _, p := range pkgs {
		if strings.HasSuffix(p.ID, ".test") { // synthesized test main
			continue
		}
		keep = append(keep, p)
	}
	packages.Visit(keep, nil, func(p *packages.Package) {
		for _, e := range p.Errors {
			s2.pkgErrs[p.PkgPath] = append(s2.pkgErrs[p.PkgPath], e.Error())
		}
	})
	// build SSA only for packages without errors
	var good []*packages.Package
	for _, p := range keep {
		if len(p.Errors) == 0 && !p.IllTyped {
			good = append(good, p)
		}
	}
	ld := buildLoaded(good, s2.ModDir)
	s2.ld = ld
	return nil
}

// mockInfo describes one generated mock type.
type mockInfo struct {
	sc       *Scenario
	pkg      *packages.Package
	srcPkg   *types.Package
	iface    types.Type // *types.Named, or the interface literal behind an alias declaration
	ifaceArg string
	mockName string
	mock     *types.Named
	methods  []*types.Func // interface methods (complete method set)
}

func findPkg(ld *Loaded, path string, wantTestVariant bool) *packages.Package {
	var best *packages.Package
	for _, p := range ld.pkgs {
		if p.PkgPath != path {
			continue
		}
		isTestVariant := strings.Contains(p.ID, "[")
		if best == nil || (wantTestVariant && isTestVariant) {
			best = p
		}
	}
	return best
}

func (s2 *Stage2) tob(sc *Scenario, name string, props []string, ok bool, detail string) {
	props = sc.restrict(props)
	s2.tObls = append(s2.tObls, &TypeOb{Name: fmt.Sprintf("gen[%s]/%s", sc.flagString()+";"+strings.Join(sc.Args, "+"), name), Props: props, OK: ok, Detail: detail, Scen: sc.Name})
}

func (sc *Scenario) restrict(props []string) []string {
	if sc.OnlyProps == nil {
		return props
	}
	var out []string
	for _, p := range props {
		if hasProp(sc.OnlyProps, p) {
			out = append(out, p)
		}
	}
	return out
}

func allStage2Props() []string {
	var out []string
	for p := range stage2Props {
		out = append(out, p)
	}
	sort.Strings(out)
	return out
}

func parseArg(a string) (string, string) {
	if k := strings.Index(a, ":"); k >= 0 {
		return a[:k], a[k+1:]
	}
	return a, a + "Mock"
}

// CheckAll generates every stage-2 obligation.
func (s2 *Stage2) CheckAll() {
	for _, sc := range s2.Scen {
		s2.checkScenario(sc)
	}
	s2.crossFormatter()
}

// crossFormatter: -fmt noop and -fmt goimports differ from the default output in layout only (C16).
func (s2 *Stage2) crossFormatter() {
	// scenarios that differ in the formatter only
	type trio struct{ def, noop, gi *Scenario }
	groups := map[string]*trio{}
	var order []string
	for _, sc := range s2.Scen {
		if sc.Src == "rnd" {
			continue
		}
		k := fmt.Sprintf("%v|%v|%v|%s|%s|%s", sc.Stub, sc.SkipEnsure, sc.Resets, sc.PkgMode, sc.Src, strings.Join(sc.Args, "+"))
		g := groups[k]
		if g == nil {
			g = &trio{}
			groups[k] = g
			order = append(order, k)
		}
		switch sc.Fmt {
		case "":
			if g.def == nil {
				g.def = sc
			}
		case "noop":
			g.noop = sc
		case "goimports":
			g.gi = sc
		}
	}
	for _, k := range order {
		g := groups[k]
		if g.def != nil && (g.noop != nil || g.gi != nil) {
			s2.crossFormatterOne(g.def, g.noop, g.gi)
		}
	}
}

func (s2 *Stage2) crossFormatterOne(def, noop, gi *Scenario) {
	if def == nil || def.ExitCode != 0 {
		return
	}
	norm := func(sc *Scenario) []byte { return bytes.ReplaceAll(sc.Output, []byte("/"+sc.Name+"/"), []byte("/cXX/")) }
	if noop != nil && noop.ExitCode == 0 {
		f, err := format.Source(norm(noop))
		s2.tob(noop, "gofmt-of-noop-equals-default", []string{"C16"}, err == nil && bytes.Equal(f, norm(def)), "gofmt applied to the -fmt noop output must give the default output byte for byte")
	}
	if gi != nil && gi.ExitCode == 0 {
		sum := func(sc *Scenario) (string, string) {
			fset := token.NewFileSet()
			f, err := parser.ParseFile(fset, "x.go", norm(sc), 0)
			if err != nil {
				return "parse error", ""
			}
			var imps, decls []string
			for _, im := range f.Imports {
				imps = append(imps, im.Path.Value)
			}
			sort.Strings(imps)
			for _, d := range f.Decls {
				switch x := d.(type) {
				case *ast.FuncDecl:
					recv := ""
					if x.Recv != nil && len(x.Recv.List) > 0 {
						var b bytes.Buffer
						format.Node(&b, fset, x.Recv.List[0].Type)
						recv = b.String() + "."
					}
					var b bytes.Buffer
					format.Node(&b, fset, x.Type)
					decls = append(decls, "func "+recv+x.Name.Name+" "+b.String())
				case *ast.GenDecl:
					if x.Tok == token.IMPORT {
						continue
					}
					var b bytes.Buffer
					format.Node(&b, fset, x)
					decls = append(decls, b.String())
				}
			}
			return strings.Join(imps, " "), strings.Join(decls, "\n")
		}
		di, dd := sum(def)
		gim, gd := sum(gi)
		s2.tob(gi, "goimports-same-import-paths", []string{"C16"}, di == gim, fmt.Sprintf("default: %s; goimports: %s", di, gim))
		s2.tob(gi, "goimports-same-declarations", []string{"C16"}, dd == gd, "top-level declarations (types, vars, function signatures) must be the same")
	}
}

func (s2 *Stage2) checkScenario(sc *Scenario) {
	s2.tob(sc, "moq-exit-0", allStage2Props(), sc.ExitCode == 0, sc.Stderr)
	if sc.ExitCode != 0 {
		return
	}
	if sc.RegenRan {
		why := sc.RegenErr
		if sc.RegenExit == 0 && !bytes.Equal(sc.Regen, sc.Output) {
			why = "second run, with the first output in place, wrote different bytes: " + firstDiff(string(sc.Output), string(sc.Regen))
		}
		s2.tob(sc, "regeneration-fixed-point", []string{"C15"}, sc.RegenExit == 0 && bytes.Equal(sc.Regen, sc.Output), why)
	}
	// type-check of the destination package (and everything else in the scenario)
	var terrs []string
	for path, es := range s2.pkgErrs {
		if strings.HasPrefix(path, "ex.com/schema/"+sc.Name+"/") {
			terrs = append(terrs, es...)
		}
	}
	sort.Strings(terrs)
	s2.tob(sc, "typecheck", allStage2Props(), len(terrs) == 0, strings.Join(terrs, "\n"))
	s2.checkFileLevel(sc)
	if len(terrs) != 0 {
		return
	}
	dst := findPkg(s2.ld, sc.OutPkg, sc.PkgMode == "test")
	src := findPkg(s2.ld, sc.SrcPkg, false)
	if dst == nil || src == nil {
		s2.tob(sc, "packages-loaded", []string{"C01"}, false, "destination or source package not loaded: "+sc.OutPkg)
		return
	}
	// the destination may see the source package through its own import graph
	srcTypes := src.Types
	if sc.OutPkg != sc.SrcPkg {
		for _, imp := range dst.Types.Imports() {
			if imp.Path() == sc.SrcPkg {
				srcTypes = imp
			}
		}
	} else {
		srcTypes = dst.Types
	}
	var order []token.Pos
	for _, arg := range sc.Args {
		in, mn := parseArg(arg)
		io, _ := srcTypes.Scope().Lookup(in).(*types.TypeName)
		mo, _ := dst.Types.Scope().Lookup(mn).(*types.TypeName)
		ok := io != nil && mo != nil
		s2.tob(sc, "mock-declared:"+mn, []string{"C20"}, ok, "one mock type per interface argument, named as requested")
		if !ok {
			continue
		}
		order = append(order, mo.Pos())
		mi := &mockInfo{sc: sc, pkg: dst, srcPkg: srcTypes, ifaceArg: in, mockName: mn}
		mi.iface = types.Unalias(io.Type())
		mi.mock, _ = mo.Type().(*types.Named)
		if mi.iface == nil || mi.mock == nil {
			continue
		}
		if _, isIface := mi.iface.Underlying().(*types.Interface); !isIface {
			continue
		}
		s2.checkMockTypes(mi)
		s2.checkMockFuncs(mi)
	}
	sorted := sort.SliceIsSorted(order, func(i, j int) bool { return order[i] < order[j] })
	s2.tob(sc, "mocks-in-argument-order", []string{"C20"}, sorted, "")
	// no other mock-like struct types in the generated file
	nStructs := 0
	for _, f := range dst.Syntax {
		if dst.Fset.Position(f.Pos()).Filename != sc.OutFile {
			continue
		}
		for _, d := range f.Decls {
			if gd, ok := d.(*ast.GenDecl); ok && gd.Tok == token.TYPE {
				nStructs += len(gd.Specs)
			}
		}
	}
	s2.tob(sc, "exactly-one-type-per-argument", []string{"C20"}, nStructs == len(sc.Args), fmt.Sprintf("%d type declarations for %d arguments", nStructs, len(sc.Args)))
}

// checkFileLevel: marker, imports, formatting (go/ast, go/format back end).
func (s2 *Stage2) checkFileLevel(sc *Scenario) {
	out := sc.Output
	s2.tob(sc, "marker-first-line", []string{"C16"}, bytes.HasPrefix(out, []byte("// Code generated by moq; DO NOT EDIT.\n")), "")
	fset := token.NewFileSet()
	f, err := parser.ParseFile(fset, sc.OutFile, out, parser.ParseComments)
	s2.tob(sc, "parses", []string{"C01", "C16"}, err == nil, fmt.Sprint(err))
	if err != nil {
		return
	}
	s2.tob(sc, "marker-before-package", []string{"C16"}, len(f.Comments) > 0 && f.Comments[0].Pos() < f.Package && strings.HasPrefix(f.Comments[0].List[0].Text, "// Code generated by moq; DO NOT EDIT."), "")
	// imports: exactly once each, no dot / blank, never the destination package itself, sorted by path
	seen := map[string]int{}
	var paths []string
	bad := ""
	for _, im := range f.Imports {
		p := strings.Trim(im.Path.Value, `"`)
		seen[p]++
		paths = append(paths, p)
		if im.Name != nil && (im.Name.Name == "." || im.Name.Name == "_") {
			bad += " dot/blank import of " + p
		}
		if p == sc.OutPkg || (sc.PkgMode == "" || sc.PkgMode == "same") && p == sc.SrcPkg {
			bad += " imports its own package " + p
		}
		if strings.Contains(p, "/vendor/") {
			bad += " vendored path " + p
		}
	}
	for p, n := range seen {
		if n > 1 {
			bad += fmt.Sprintf(" %s imported %d times", p, n)
		}
	}
	s2.tob(sc, "imports-wellformed", []string{"C10", "C11"}, bad == "", bad)
	if sc.Fmt != "goimports" && sc.Fmt != "noop" {
		s2.tob(sc, "imports-sorted-by-path", []string{"C11", "C14"}, sort.StringsAreSorted(paths), strings.Join(paths, " "))
	}
	// unused imports are type errors and are reported by typecheck; sync iff some mock has a method
	if sc.Fmt == "" || sc.Fmt == "gofmt" {
		formatted, err := format.Source(out)
		s2.tob(sc, "gofmt-fixed-point", []string{"C16"}, err == nil && bytes.Equal(formatted, out), "default output must be what gofmt leaves unchanged")
	}
	// source-package import only when needed (-skip-ensure, other package): checked by unused-import type errors;
	// own-package types unqualified in place: a qualified reference would need the self import reported above.
}

func sigNoRecv(sig *types.Signature) *types.Signature {
	return types.NewSignatureType(nil, nil, nil, sig.Params(), sig.Results(), sig.Variadic())
}

// checkMockTypes: go/types obligations on one generated mock (C02, C04, C05, C08, C09, C13).
func (s2 *Stage2) checkMockTypes(mi *mockInfo) {
	sc := mi.sc
	pfx := mi.mockName + "/"
	iface := mi.iface
	mock := mi.mock
	var ifaceT types.Type = iface
	var mockT types.Type = mock
	var itp *types.TypeParamList
	if n, ok := iface.(*types.Named); ok && (n.TypeArgs() == nil || n.TypeArgs().Len() == 0) {
		// (an instantiated type reports the parameters of its origin; it is not generic itself)
		itp = n.TypeParams()
	}
	mtp := mock.TypeParams()
	s2.tob(sc, pfx+"type-param-count", []string{"C09"}, itp.Len() == mtp.Len(), fmt.Sprintf("interface has %d type parameters, mock %d", itp.Len(), mtp.Len()))
	if itp.Len() != mtp.Len() {
		return
	}
	if itp.Len() > 0 {
		var targs []types.Type
		okNames, okCons := true, true
		detail := ""
		for i := 0; i < itp.Len(); i++ {
			targs = append(targs, itp.At(i))
			if itp.At(i).Obj().Name() != mtp.At(i).Obj().Name() {
				okNames = false
				detail += fmt.Sprintf(" #%d %s vs %s;", i, itp.At(i).Obj().Name(), mtp.At(i).Obj().Name())
			}
		}
		s2.tob(sc, pfx+"type-param-names-and-order", []string{"C09"}, okNames, detail)
		// instantiate the mock with the interface's own type parameters: validates that every
		// constraint of the mock is implied by the interface's, and lets Identical compare members
		inst, err := types.Instantiate(types.NewContext(), mock, targs, true)
		s2.tob(sc, pfx+"constraints-not-stricter", []string{"C09"}, err == nil, fmt.Sprint(err))
		if err != nil {
			return
		}
		mockT = inst
		// and conversely: the interface instantiated with the mock's parameters
		var margs []types.Type
		for i := 0; i < mtp.Len(); i++ {
			margs = append(margs, mtp.At(i))
		}
		_, err2 := types.Instantiate(types.NewContext(), iface.(*types.Named), margs, true)
		if err2 != nil {
			okCons = false
		}
		s2.tob(sc, pfx+"constraints-not-weaker", []string{"C09"}, okCons, fmt.Sprint(err2))
	}
	ifaceU, ok := ifaceT.Underlying().(*types.Interface)
	if !ok {
		return
	}
	ifaceU.Complete()
	ptr := types.NewPointer(mockT)
	missing, wrong := types.MissingMethod(ptr, ifaceU, true)
	detail := ""
	if missing != nil {
		detail = fmt.Sprintf("missing or wrong method %s (wrong type: %v)", missing.Name(), wrong)
	}
	s2.tob(sc, pfx+"implements-interface", []string{"C02", "C09"}, missing == nil, detail)

	st, ok := mockT.Underlying().(*types.Struct)
	if !ok {
		s2.tob(sc, pfx+"mock-is-struct", []string{"C02"}, false, "")
		return
	}
	fields := map[string]*types.Var{}
	for i := 0; i < st.NumFields(); i++ {
		fields[st.Field(i).Name()] = st.Field(i)
	}
	ms := types.NewMethodSet(ptr)
	have := map[string]*types.Func{}
	for i := 0; i < ms.Len(); i++ {
		have[ms.At(i).Obj().Name()] = ms.At(i).Obj().(*types.Func)
	}
	want := map[string]bool{}
	var callsStruct *types.Struct
	if cf := fields["calls"]; cf != nil {
		callsStruct, _ = cf.Type().Underlying().(*types.Struct)
	}
	s2.tob(sc, pfx+"calls-struct", []string{"C04"}, callsStruct != nil, "")
	nFuncFields := 0
	for name := range fields {
		if strings.HasSuffix(name, "Func") {
			nFuncFields++
		}
	}
	s2.tob(sc, pfx+"one-func-field-per-method", []string{"C02"}, nFuncFields == ifaceU.NumMethods(), fmt.Sprintf("%d function fields, %d methods", nFuncFields, ifaceU.NumMethods()))
	for i := 0; i < ifaceU.NumMethods(); i++ {
		m := ifaceU.Method(i)
		mi.methods = append(mi.methods, m)
		sig := m.Type().(*types.Signature)
		want[m.Name()] = true
		want[m.Name()+"Calls"] = true
		if sc.Resets {
			want["Reset"+m.Name()+"Calls"] = true
		}
		// method signature identical
		if hm := have[m.Name()]; hm != nil {
			// the method of the instantiated mock
			obj, _, _ := types.LookupFieldOrMethod(ptr, true, mi.pkg.Types, m.Name())
			if f, ok := obj.(*types.Func); ok {
				s2.tob(sc, pfx+m.Name()+"/signature-identical", []string{"C02", "C09"}, types.Identical(sigNoRecv(f.Type().(*types.Signature)), sigNoRecv(sig)),
					fmt.Sprintf("%s vs %s", f.Type(), sig))
			}
		}
		ff := fields[m.Name()+"Func"]
		okF := ff != nil && types.Identical(ff.Type(), sigNoRecv(sig))
		d := ""
		if ff != nil {
			d = fmt.Sprintf("%s vs %s", ff.Type(), sigNoRecv(sig))
		}
		s2.tob(sc, pfx+m.Name()+"/func-field-identical", []string{"C02", "C09"}, okF, d)
		// lock field
		lf := fields["lock"+m.Name()]
		okL := false
		if lf != nil {
			if n, ok := lf.Type().(*types.Named); ok && n.Obj().Pkg() != nil && n.Obj().Pkg().Path() == "sync" && n.Obj().Name() == "RWMutex" {
				okL = true
			}
		}
		s2.tob(sc, pfx+m.Name()+"/lock-is-sync.RWMutex", []string{"C05"}, okL, "")
		// record struct: one field per parameter, in order, typed as the parameter
		if callsStruct != nil {
			var rec *types.Struct
			for k := 0; k < callsStruct.NumFields(); k++ {
				if callsStruct.Field(k).Name() == m.Name() {
					if sl, ok := callsStruct.Field(k).Type().Underlying().(*types.Slice); ok {
						rec, _ = sl.Elem().Underlying().(*types.Struct)
					}
				}
			}
			okR := rec != nil && rec.NumFields() == sig.Params().Len()
			d := ""
			if okR {
				for k := 0; k < rec.NumFields(); k++ {
					pt := sig.Params().At(k).Type()
					if !types.Identical(rec.Field(k).Type(), pt) {
						okR = false
						d += fmt.Sprintf(" field %d: %s vs %s;", k, rec.Field(k).Type(), pt)
					}
					// C13: field name follows the parameter name when the interface names it
					pn := sig.Params().At(k).Name()
					if pn != "" && pn != "_" {
						exp := exportedSpec(pn)
						s2.tob(sc, pfx+m.Name()+"/record-field-name:"+pn, []string{"C13"}, rec.Field(k).Name() == exp, fmt.Sprintf("field %s for parameter %s, want %s", rec.Field(k).Name(), pn, exp))
					}
				}
			}
			s2.tob(sc, pfx+m.Name()+"/record-struct", []string{"C04"}, okR, d)
			// accessor returns a slice of exactly that record type
			if acc := have[m.Name()+"Calls"]; acc != nil && rec != nil {
				obj, _, _ := types.LookupFieldOrMethod(ptr, true, mi.pkg.Types, m.Name()+"Calls")
				okA := false
				if f, ok := obj.(*types.Func); ok {
					rs := f.Type().(*types.Signature).Results()
					if rs.Len() == 1 && f.Type().(*types.Signature).Params().Len() == 0 {
						if sl, ok := rs.At(0).Type().Underlying().(*types.Slice); ok {
							okA = types.Identical(sl.Elem(), types.Type(rec))
						}
					}
				}
				s2.tob(sc, pfx+m.Name()+"/accessor-type", []string{"C04"}, okA, "")
			}
		}
	}
	if sc.Resets {
		want["ResetCalls"] = true
	}
	var extra, lacking []string
	for n := range have {
		if !want[n] {
			extra = append(extra, n)
		}
	}
	for n := range want {
		if have[n] == nil {
			lacking = append(lacking, n)
		}
	}
	sort.Strings(extra)
	sort.Strings(lacking)
	s2.tob(sc, pfx+"method-set-exact", []string{"C08", "C02", "C20"}, len(extra) == 0 && len(lacking) == 0,
		fmt.Sprintf("unexpected methods %v, missing methods %v (with-resets=%v)", extra, lacking, sc.Resets))
}

// exportedSpec is the independent copy of the field-naming rule (C13).
func exportedSpec(s string) string {
	if s == "" {
		return ""
	}
	for _, in := range strings.Fields("ACL API ASCII CPU CSS DNS EOF GUID HTML HTTP HTTPS ID IP JSON LHS QPS RAM RHS RPC SLA SMTP SQL SSH TCP TLS TTL UDP UI UID UUID URI URL UTF8 VM XML XMPP XSRF XSS") {
		if strings.ToUpper(s) == in {
			return in
		}
	}
	return strings.ToUpper(s[:1]) + s[1:]
}

// ---------------------------------------------------------------------------
// Symbolic execution of the generated functions against the contract schema.

type mockHooks struct {
	s2      *Stage2
	mi      *mockInfo
	kind    string // method | accessor | reset | resetall
	method  string // interface method concerned (method/accessor/reset)
	fn      *ssa.Function
	recv    Term
	mockCls string
	params  []SV
	name    string // obligation name prefix
	mfunc0  Term   // entry value of mock.<M>Func
	e       *Exec
}

func (h *mockHooks) ob(st *State, clause string, goal Term, note string) {
	props := h.mi.sc.restrict(h.s2.clauseProps(h.kind, clause))
	h.e.oblige(st, h.name+"/"+clause, props, goal, note)
}

// clauseProps returns the properties a schema clause serves (from the contract file).
func (s2 *Stage2) clauseProps(kind, clause string) []string {
	for _, c := range s2.specs.Schema {
		if c.Kind == kind && c.Name == clause {
			return c.Props
		}
	}
	for _, c := range s2.specs.Schema {
		if c.Kind == "any" && c.Name == clause {
			return c.Props
		}
	}
	s2.errs = appendUnique(s2.errs, fmt.Sprintf("contract schema has no clause %q for %s functions (internal/template/zz_contracts_verif.go)", clause, kind))
	return nil
}

func appendUnique(xs []string, x string) []string {
	for _, y := range xs {
		if y == x {
			return xs
		}
	}
	return append(xs, x)
}

func (h *mockHooks) protectedOf(a *Addr) (string, bool) {
	if a.Kind != AObj || a.Class != h.mockCls || a.Ref.S != h.recv.S {
		return "", false
	}
	if strings.HasPrefix(a.Path, ".calls.") {
		rest := a.Path[len(".calls."):]
		if k := strings.IndexAny(rest, ".#"); k >= 0 {
			rest = rest[:k]
		}
		return rest, true
	}
	if a.Path == ".calls" {
		return "*", true
	}
	return "", false
}

func (h *mockHooks) OnLoad(e *Exec, st *State, a *Addr, v *SV, in ssa.Instruction) {
	if m, ok := h.protectedOf(a); ok {
		mode := st.held[".lock"+m]
		h.ob(st, "perm-load", BoolLit(mode != ""), "read of calls."+m+" requires holding lock"+m+" ("+e.ld.pos(in.Pos())+")")
		v.Prot = m
		st.events = append(st.events, Event{Kind: "load", Addr: m, SVs: []SV{*v}, Instr: in})
	}
}

func (h *mockHooks) OnStore(e *Exec, st *State, a *Addr, v SV, in ssa.Instruction) {
	if m, ok := h.protectedOf(a); ok {
		h.ob(st, "perm-store", BoolLit(st.held[".lock"+m] == "W"), "write of calls."+m+" requires holding lock"+m+" exclusively ("+e.ld.pos(in.Pos())+")")
		st.events = append(st.events, Event{Kind: "store", Addr: m, SVs: []SV{v}, Instr: in})
		return
	}
	// any other store into the mock object (function fields, locks) is outside the contract
	if a.Kind == AObj && a.Class == h.mockCls && a.Ref.S == h.recv.S {
		h.ob(st, "no-other-writes", BoolLit(false), "generated code writes mock"+a.Path)
	}
}

func (h *mockHooks) lockOf(arg SV) (string, bool) {
	if arg.Addr == nil || arg.Addr.Kind != AObj || arg.Addr.Class != h.mockCls || arg.Addr.Ref.S != h.recv.S {
		return "", false
	}
	if strings.HasPrefix(arg.Addr.Path, ".lock") && !strings.Contains(arg.Addr.Path[1:], ".") {
		return arg.Addr.Path, true
	}
	return "", false
}

func (h *mockHooks) callsAddr(m string) *Addr {
	// address of mock.calls.<m>
	st := h.mi.mockStruct()
	_, ct, _ := findField(st, "calls")
	_, ft, ok := findField(ct, m)
	if !ok {
		return nil
	}
	return &Addr{Kind: AObj, Class: h.mockCls, Ref: h.recv, Path: ".calls." + m, T: ft}
}

func (mi *mockInfo) mockStruct() types.Type { return mi.mock.Underlying() }

func (h *mockHooks) OnCall(e *Exec, st *State, ci ssa.CallInstruction, callee string, args []SV, res *SV) bool {
	switch callee {
	case "sync.RWMutex.Lock", "sync.RWMutex.RLock":
		lk, ok := h.lockOf(args[0])
		if !ok {
			h.ob(st, "lock-is-own-field", BoolLit(false), "lock operation on something that is not a lock field of the receiver")
			return true
		}
		h.ob(st, "no-lock-nesting", BoolLit(len(st.held) == 0), "acquires "+lk+" while holding "+fmt.Sprint(sortedKeys(st.held)))
		mode := "W"
		if strings.HasSuffix(callee, "RLock") {
			mode = "R"
		}
		st.held[lk] = mode
		// other goroutines may have changed the protected record list since: havoc it
		m := strings.TrimPrefix(lk, ".lock")
		if a := h.callsAddr(m); a != nil {
			nv := e.freshSV("locked."+m, a.T)
			e.wfAssume(st, nv)
			e.store(st, a, nv)
			e.havocClasses(st, []string{"A:"})
			st.ghost["sect:"+m+":arr"] = nv.L[0]
			st.ghost["sect:"+m+":off"] = nv.L[1]
			st.ghost["sect:"+m+":len"] = nv.L[2]
			st.ghost["sect:"+m+":cap"] = nv.L[3]
			st.ghost["sect:"+m+":alloc"] = st.alloc
			// remember the cells at lock time
			for k, v := range e.sectionCells(st, a.T) {
				st.ghost["sectcells:"+m+":"+k] = v
			}
		} else {
			h.ob(st, "lock-protects-a-record-list", BoolLit(false), "lock "+lk+" has no calls."+m)
		}
		st.events = append(st.events, Event{Kind: "lock", Addr: lk, Mode: mode, Instr: ci})
		*res = SV{}
		return true
	case "sync.RWMutex.Unlock", "sync.RWMutex.RUnlock":
		lk, ok := h.lockOf(args[0])
		if !ok {
			h.ob(st, "lock-is-own-field", BoolLit(false), "unlock of something that is not a lock field of the receiver")
			return true
		}
		want := "W"
		if strings.HasSuffix(callee, "RUnlock") {
			want = "R"
		}
		h.ob(st, "unlock-matches-lock", BoolLit(st.held[lk] == want), fmt.Sprintf("%s on %s while held in mode %q", callee, lk, st.held[lk]))
		m := strings.TrimPrefix(lk, ".lock")
		h.sectionEffect(e, st, m)
		delete(st.held, lk)
		st.events = append(st.events, Event{Kind: "unlock", Addr: lk, Instr: ci})
		*res = SV{}
		return true
	case "builtin.append":
		if args[0].Prot != "" {
			h.ob(st, "perm-append", BoolLit(st.held[".lock"+args[0].Prot] == "W"), "append to the record list of "+args[0].Prot+" (may write its backing array in place) requires holding lock"+args[0].Prot+" exclusively")
		}
		return false
	}
	if strings.HasPrefix(callee, "sync.") {
		h.ob(st, "only-rwmutex-operations", BoolLit(false), "unexpected synchronisation call "+callee)
		*res = e.freshSV("sync", ci.Common().Signature().Results())
		return true
	}
	return false
}

// sectionCells returns the per-leaf backing-array class terms for element type of slice type t.
func (e *Exec) sectionCells(st *State, t types.Type) map[string]Term {
	out := map[string]Term{}
	sl, ok := t.Underlying().(*types.Slice)
	if !ok {
		return out
	}
	for _, l := range flatten(sl.Elem()) {
		name := heapSym("A", typeKey(sl.Elem()), l.Path)
		out[l.Path] = e.heapGet(st, name, ArrSort(SInt, ArrSort(SInt, l.Sort)))
	}
	return out
}

// sectionEffect: at the release of lock<M>, the net effect of the critical
// section on view(calls.M) must be the one the contract allows for this kind
// of function: append exactly one record built from the arguments (method of
// M), identity (accessor), empty (reset).
func (h *mockHooks) sectionEffect(e *Exec, st *State, m string) {
	a := h.callsAddr(m)
	if a == nil {
		return
	}
	cur := e.load(st, a)
	l0 := SV{T: a.T, L: []Term{st.ghost["sect:"+m+":arr"], st.ghost["sect:"+m+":off"], st.ghost["sect:"+m+":len"], st.ghost["sect:"+m+":cap"]}}
	if l0.L[0].S == "" {
		return
	}
	sl := a.T.Underlying().(*types.Slice)
	leaves := flatten(sl.Elem())
	cellsNow := e.sectionCells(st, a.T)
	prefixSame := func() Term {
		var cs []Term
		for _, l := range leaves {
			was := st.ghost["sectcells:"+m+":"+l.Path]
			now := cellsNow[l.Path]
			cs = append(cs, Term{fmt.Sprintf("(forall ((i!p Int)) (=> (and (<= 0 i!p) (< i!p %s)) (= (select (select %s %s) %s) (select (select %s %s) %s))))",
				l0.L[2].S, now.S, cur.L[0].S, CellIdx(cur.L[1], Term{"i!p", SInt}).S, was.S, l0.L[0].S, CellIdx(l0.L[1], Term{"i!p", SInt}).S), SBool})
		}
		return And(cs...)
	}
	// snapshots handed out earlier: any slice (sa, so, sn) over the same element type that satisfied
	// the snapshot invariant at lock time (sa == calls.arr ==> so == calls.off && sn <= calls.len) keeps its cells
	snapStable := func() Term {
		var cs []Term
		for _, l := range leaves {
			was := st.ghost["sectcells:"+m+":"+l.Path]
			now := cellsNow[l.Path]
			cs = append(cs, Term{fmt.Sprintf("(forall ((sa Int) (i!s Int)) (=> (and (< 0 sa) (< sa %s) (or (not (= sa %s)) (and (<= %s i!s) (< i!s (+ %s %s))))) (= (select (select %s sa) i!s) (select (select %s sa) i!s))))",
				// existing arrays other than the list's own keep all cells; the list's own array keeps the cells below its length
				h.allocAtLock(st, m).S, l0.L[0].S, l0.L[1].S, l0.L[1].S, l0.L[2].S, now.S, was.S), SBool})
		}
		return And(cs...)
	}
	// snapshot invariant (sa == list.arr ==> so == list.off && sn <= list.len) is preserved for every
	// existing snapshot iff the list moved to a fresh array, became nil, or grew in place
	h.ob(st, "snapshot-invariant-preserved", Or(Eq(cur.L[0], IntLit(0)), Ge(cur.L[0], st.ghost["sect:"+m+":alloc"]),
		And(Eq(cur.L[0], l0.L[0]), Eq(cur.L[1], l0.L[1]), Ge(cur.L[2], l0.L[2]))),
		"a list that is truncated in place or moved into an existing array lets later appends overwrite snapshots already returned")
	switch {
	case h.kind == "method" && m == h.method:
		h.ob(st, "record-appended-once", Eq(cur.L[2], Add(l0.L[2], IntLit(1))), "the critical section makes the record list one element longer")
		h.ob(st, "record-prefix-kept", prefixSame(), "earlier records are unchanged, in order")
		// the new record holds the arguments field by field in parameter order
		var eqs []Term
		k := 0
		okShape := true
		for _, p := range h.params {
			for range p.L {
				if k >= len(leaves) {
					okShape = false
					break
				}
				k++
			}
		}
		if k != len(leaves) {
			okShape = false
		}
		if okShape {
			k = 0
			for _, p := range h.params {
				for _, pl := range p.L {
					now := cellsNow[leaves[k].Path]
					if leaves[k].Sort != pl.Sort {
						okShape = false
						break
					}
					eqs = append(eqs, Eq(Select(Select(now, cur.L[0]), CellIdx(cur.L[1], l0.L[2])), pl))
					k++
				}
			}
		}
		if !okShape {
			h.ob(st, "record-holds-arguments", BoolLit(false), "record struct shape does not match the parameter list")
		} else {
			h.ob(st, "record-holds-arguments", And(eqs...), "field k of the new record equals parameter k")
		}
		h.ob(st, "snapshots-unchanged", snapStable(), "no cell of a previously returned snapshot is written")
		st.ghost["recorded"] = BoolLit(true)
	case h.kind == "accessor" && m == h.method:
		var eqs []Term
		for i := range cur.L {
			eqs = append(eqs, Eq(cur.L[i], l0.L[i]))
		}
		h.ob(st, "accessor-leaves-list-unchanged", And(eqs...), "")
		h.ob(st, "snapshots-unchanged", snapStable(), "")
	case h.kind == "reset" && m == h.method, h.kind == "resetall":
		h.ob(st, "reset-empties-list", Eq(cur.L[2], IntLit(0)), "")
		h.ob(st, "snapshots-unchanged", snapStable(), "")
		st.ghost["reset:"+m] = BoolLit(true)
	default:
		h.ob(st, "touches-only-own-list", BoolLit(false), fmt.Sprintf("%s of %s takes lock%s", h.kind, h.method, m))
	}
}

func (h *mockHooks) allocAtLock(st *State, m string) Term { return st.ghost["sect:"+m+":alloc"] }

func (h *mockHooks) OnInvoke(e *Exec, st *State, ci ssa.CallInstruction, fn SV, args []SV, res SV) {
	h.ob(st, "no-lock-held-at-invoke", BoolLit(len(st.held) == 0), "user function called while holding "+fmt.Sprint(sortedKeys(st.held)))
	ev := Event{Kind: "invoke", SVs: append([]SV{fn}, args...), Terms: res.L, Instr: ci, Pc: append([]Term(nil), st.pc...)}
	if st.ghost["recorded"].S == "true" {
		ev.Note = "recorded"
	}
	st.events = append(st.events, ev)
	// user code may re-enter the mock and do anything to the heap
	e.havocAll(st)
}

func (h *mockHooks) OnForbidden(e *Exec, st *State, in ssa.Instruction, what string) {
	if in == nil {
		h.ob(st, "within-verified-subset", BoolLit(false), "generated function uses a construct outside the modelled subset ("+what+"): nothing is proved about this function")
		st.aborted = "forbidden"
		return
	}
	switch what {
	case "go", "defer", "*ssa.Select", "*ssa.Send", "builtin recover":
		h.ob(st, "no-go-defer-recover", BoolLit(false), "generated function contains "+what+" at "+e.ld.pos(in.Pos()))
	default:
		h.ob(st, "within-verified-subset", BoolLit(false), "generated function uses "+what+" at "+e.ld.pos(in.Pos())+", which the contract schema does not cover: nothing is proved about this function")
	}
	st.aborted = "forbidden"
}

func zeroTerms(t types.Type) []Term { return zeroSV(t).L }

// exit obligations for one path
func (h *mockHooks) atExit(e *Exec, st *State, results []SV, panicked bool, panicInstr *ssa.Panic) {
	sc := h.mi.sc
	h.ob(st, "no-lock-held-at-exit", BoolLit(len(st.held) == 0), "returns or panics while holding "+fmt.Sprint(sortedKeys(st.held)))
	var invokes []Event
	nLock := 0
	nStore := 0
	for _, ev := range st.events {
		switch ev.Kind {
		case "invoke":
			invokes = append(invokes, ev)
		case "lock":
			nLock++
		case "store":
			nStore++
		}
	}
	isNil := Eq(h.mfunc0, IntLit(0))
	switch h.kind {
	case "method":
		if panicked {
			// only allowed: !stub && MFunc == nil, before any effect
			if sc.Stub {
				h.ob(st, "stub-never-panics", BoolLit(false), "a -stub mock method can reach panic")
			}
			h.ob(st, "panic-only-when-func-nil", isNil, "")
			if len(invokes) > 0 || nLock > 0 || nStore > 0 {
				h.ob(st, "panic-before-any-effect", BoolLit(false), "panics after recording, locking or invoking")
			}
			msg := ""
			if panicInstr != nil {
				if mk, ok := panicInstr.X.(*ssa.MakeInterface); ok {
					if c, ok := mk.X.(*ssa.Const); ok && c.Value != nil && c.Value.Kind() == constant.String {
						msg = constant.StringVal(c.Value)
					}
				}
			}
			okMsg := strings.Contains(msg, h.mi.mockName+"."+h.method+"Func") && strings.Contains(msg, h.mi.ifaceArg+"."+h.method)
			h.ob(st, "panic-message-identifies", BoolLit(okMsg), fmt.Sprintf("panic value %q must name the mock type, the function field and the interface method", msg))
			return
		}
		switch len(invokes) {
		case 0:
			// returning without delegating: only when MFunc is nil and -stub
			h.ob(st, "delegates-when-func-set", isNil, "a path returns without calling "+h.method+"Func although it is set")
			if !sc.Stub {
				h.ob(st, "nil-func-panics-by-default", Not(isNil), "without -stub a nil function field must panic, not return")
			}
			if st.ghost["recorded"].S != "true" {
				h.ob(st, "stub-call-recorded", Not(isNil), "a stubbed call returns without having been recorded")
			}
			// zero results
			var eqs []Term
			for _, r := range results {
				z := zeroTerms(r.T)
				if _, isTP := r.T.(*types.TypeParam); isTP {
					// zero of a type parameter: the SSA zero constant evaluates to the same model value
				}
				for i := range r.L {
					eqs = append(eqs, Eq(r.L[i], z[i]))
				}
			}
			h.ob(st, "stub-returns-zero-values", Or(Not(isNil), And(eqs...)), "")
		case 1:
			iv := invokes[0]
			h.ob(st, "invoke-only-when-func-set", Not(isNil), "")
			// callee is the value of mock.<M>Func
			h.e.oblige(&State{pc: iv.Pc}, h.name+"/invoke-callee-is-func-field", h.s2.clauseProps(h.kind, "invoke-callee-is-func-field"), Eq(iv.SVs[0].L[0], h.mfunc0), "the function called is the value of "+h.method+"Func of this mock")
			// arguments
			args := iv.SVs[1:]
			var eqs []Term
			okShape := len(args) == len(h.params)
			if okShape {
				for i := range args {
					if len(args[i].L) != len(h.params[i].L) {
						okShape = false
						break
					}
					for k := range args[i].L {
						eqs = append(eqs, Eq(args[i].L[k], h.params[i].L[k]))
					}
				}
			}
			if !okShape {
				h.ob(st, "invoke-passes-arguments", BoolLit(false), "argument list shape differs from the parameter list")
			} else {
				h.e.oblige(&State{pc: iv.Pc}, h.name+"/invoke-passes-arguments", h.s2.clauseProps(h.kind, "invoke-passes-arguments"), And(eqs...), "argument k is parameter k; a variadic tail is the same slice (base, offset, length, capacity)")
			}
			// results forwarded
			var req []Term
			k := 0
			okR := true
			for _, r := range results {
				for i := range r.L {
					if k >= len(iv.Terms) {
						okR = false
						break
					}
					req = append(req, Eq(r.L[i], iv.Terms[k]))
					k++
				}
			}
			if k != len(iv.Terms) {
				okR = false
			}
			if !okR {
				h.ob(st, "results-forwarded", BoolLit(false), "result list shape differs")
			} else {
				h.ob(st, "results-forwarded", And(req...), "the caller observes exactly what the function returned")
			}
			if iv.Note != "recorded" {
				h.ob(st, "recorded-before-invoke", BoolLit(false), "the call is not recorded (critical section closed) before the user function runs")
			}
		default:
			h.ob(st, "invoke-at-most-once", BoolLit(false), fmt.Sprintf("%d calls of function values on one path", len(invokes)))
		}
	case "accessor":
		if panicked {
			h.ob(st, "accessor-never-panics", BoolLit(false), "")
			return
		}
		if len(invokes) > 0 {
			h.ob(st, "accessor-invokes-nothing", BoolLit(false), "")
		}
		// returns the list as it was inside the read section
		var want []Term
		for _, k := range []string{"arr", "off", "len", "cap"} {
			want = append(want, st.ghost["sect:"+h.method+":"+k])
		}
		if want[0].S == "" || len(results) != 1 || len(results[0].L) != 4 {
			h.ob(st, "accessor-returns-current-list", BoolLit(false), "accessor does not read calls."+h.method+" under its lock")
		} else {
			h.ob(st, "accessor-returns-current-list", And(Eq(results[0].L[0], want[0]), Eq(results[0].L[1], want[1]), Eq(results[0].L[2], want[2])), "same backing array, offset and length as calls."+h.method+" inside the read section")
			h.ob(st, "accessor-capacity-not-beyond-list", Le(results[0].L[3], want[3]), "")
		}
	case "reset":
		if panicked {
			h.ob(st, "reset-never-panics", BoolLit(false), "")
			return
		}
		if len(invokes) > 0 {
			h.ob(st, "reset-invokes-nothing", BoolLit(false), "")
		}
		if st.ghost["reset:"+h.method].S != "true" {
			h.ob(st, "reset-clears-its-list", BoolLit(false), "Reset"+h.method+"Calls does not empty calls."+h.method)
		}
	case "resetall":
		if panicked {
			h.ob(st, "reset-never-panics", BoolLit(false), "")
			return
		}
		if len(invokes) > 0 {
			h.ob(st, "reset-invokes-nothing", BoolLit(false), "")
		}
		for _, m := range h.mi.methods {
			if st.ghost["reset:"+m.Name()].S != "true" {
				h.ob(st, "resetall-clears-every-list", BoolLit(false), "ResetCalls does not empty calls."+m.Name())
			}
		}
	}
}

// checkMockFuncs runs the symbolic executor over every generated function of one mock.
func (s2 *Stage2) checkMockFuncs(mi *mockInfo) {
	if len(mi.methods) == 0 {
		ifaceU, _ := mi.iface.Underlying().(*types.Interface)
		if ifaceU != nil {
			for i := 0; i < ifaceU.NumMethods(); i++ {
				mi.methods = append(mi.methods, ifaceU.Method(i))
			}
		}
	}
	sc := mi.sc
	type job struct {
		kind, method, fname string
	}
	var jobs []job
	for _, m := range mi.methods {
		jobs = append(jobs, job{"method", m.Name(), m.Name()}, job{"accessor", m.Name(), m.Name() + "Calls"})
		if sc.Resets {
			jobs = append(jobs, job{"reset", m.Name(), "Reset" + m.Name() + "Calls"})
		}
	}
	if sc.Resets {
		jobs = append(jobs, job{"resetall", "", "ResetCalls"})
	}
	for _, j := range jobs {
		var fn *ssa.Function
		for i := 0; i < mi.mock.NumMethods(); i++ {
			if mi.mock.Method(i).Name() == j.fname {
				fn = s2.ld.prog.FuncValue(mi.mock.Method(i))
			}
		}
		if fn == nil || len(fn.Blocks) == 0 {
			s2.tob(sc, mi.mockName+"/"+j.fname+"/function-present", []string{"C02", "C08"}, false, "generated function not found")
			continue
		}
		s2.execGenerated(mi, j.kind, j.method, fn)
	}
}

func (s2 *Stage2) execGenerated(mi *mockInfo, kind, method string, fn *ssa.Function) {
	e := newExec(s2.ld, s2.specs)
	e.top = fn
	e.topSpec = &FuncSpec{Name: fn.Name(), SafetyProps: s2.clauseProps("any", "no-runtime-panic")}
	h := &mockHooks{s2: s2, mi: mi, kind: kind, method: method, fn: fn, e: e}
	h.name = fmt.Sprintf("gen[%s]/%s.%s", mi.sc.flagString()+";"+strings.Join(mi.sc.Args, "+"), mi.mockName, fn.Name())
	e.hooks = h
	fnAlias[fn] = h.name
	if s2.genIndex == nil {
		s2.genIndex = map[string]*mockInfo{}
	}
	s2.genIndex[h.name] = mi
	st := e.newState()
	var args []SV
	for i, p := range fn.Params {
		v := e.freshSV("in."+p.Name(), p.Type())
		e.wfAssume(st, v)
		args = append(args, v)
		if i == 0 {
			h.recv = v.L[0]
			st.pc = append(st.pc, Not(Eq(v.L[0], IntLit(0))))
			pt, ok := p.Type().Underlying().(*types.Pointer)
			if !ok {
				s2.errs = append(s2.errs, h.name+": receiver is not a pointer")
				return
			}
			h.mockCls = typeKey(pt.Elem())
		} else {
			h.params = append(h.params, v)
		}
	}
	if kind == "method" {
		_, ft, ok := findField(mi.mockStruct(), method+"Func")
		if !ok {
			s2.tob(mi.sc, mi.mockName+"/"+method+"/func-field-present", []string{"C02"}, false, "")
			return
		}
		// generic mocks: the struct of the receiver's own instantiation
		if pt, ok := fn.Params[0].Type().Underlying().(*types.Pointer); ok {
			if _, ft2, ok := findField(pt.Elem().Underlying(), method+"Func"); ok {
				ft = ft2
			}
		}
		mf := e.load(st, &Addr{Kind: AObj, Class: h.mockCls, Ref: h.recv, Path: "." + method + "Func", T: ft})
		h.mfunc0 = mf.L[0]
	}
	e.entry = st.clone()
	// loops are not part of the schema
	for _, b := range fn.Blocks {
		for _, s := range b.Succs {
			if s.Dominates(b) {
				e.oblige(st, h.name+"/no-loops", s2.clauseProps("any", "no-loops"), BoolLit(false), "generated function contains a loop")
				s2.obls = append(s2.obls, e.obls...)
				return
			}
		}
	}
	var lastPanic *ssa.Panic
	for _, b := range fn.Blocks {
		for _, in := range b.Instrs {
			if p, ok := in.(*ssa.Panic); ok {
				lastPanic = p
			}
		}
	}
	e.runFunc(fn, e.topSpec, args, nil, st, false, func(st2 *State, results []SV) {
		h.atExit(e, st2, results, false, nil)
	}, func(st2 *State, v SV) {
		h.atExit(e, st2, nil, true, lastPanic)
	})
	for _, er := range e.errs {
		s2.errs = appendUnique(s2.errs, h.name+": "+er)
	}
	s2.obls = append(s2.obls, e.obls...)
}

func firstDiff(a, b string) string {
	la, lb := strings.Split(a, "\n"), strings.Split(b, "\n")
	for i := 0; i < len(la) && i < len(lb); i++ {
		if la[i] != lb[i] {
			return fmt.Sprintf("line %d: %q vs %q", i+1, la[i], lb[i])
		}
	}
	return fmt.Sprintf("%d vs %d lines", len(la), len(lb))
}
