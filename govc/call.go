package main

import (
	"fmt"
	"go/types"
	"sort"
	"strings"

	"golang.org/x/tools/go/ssa"
)

const maxInlineDepth = 6

func (e *Exec) call(fr *frame, ci ssa.CallInstruction, st *State, k func(*State, SV)) {
	c := ci.Common()
	var args []SV
	for _, a := range c.Args {
		args = append(args, e.val(st, a))
	}
	resT := c.Signature().Results()
	var rt types.Type = resT
	if resT.Len() == 1 {
		rt = resT.At(0).Type()
	}

	if b, ok := c.Value.(*ssa.Builtin); ok {
		e.builtin(fr, ci, b, args, st, k)
		return
	}
	if c.IsInvoke() {
		recv := e.val(st, c.Value)
		name := typeKey(c.Value.Type()) + "." + c.Method.Name()
		all := append([]SV{recv}, args...)
		e.safety(fr, st, "nil-iface:"+valName(c.Value)+"."+c.Method.Name(), Not(Eq(recv.L[0], IntLit(0))), ci)
		var res SV
		if e.hooks != nil && e.hooks.OnCall(e, st, ci, name, all, &res) {
			k(st, res)
			return
		}
		res = e.extern(fr, st, ci, name, c.Method, all, rt)
		k(st, res)
		return
	}
	callee := c.StaticCallee()
	var binds []SV
	if callee == nil {
		fv := e.val(st, c.Value)
		if fv.Fn != nil {
			callee = fv.Fn.Fn
			binds = fv.Fn.Bindings
		} else {
			// dynamic call of an unknown function value: user code
			res := e.freshSV("callres", rt)
			if e.hooks != nil {
				e.hooks.OnInvoke(e, st, ci, fv, args, res)
			} else {
				e.safety(fr, st, "nil-func:"+valName(c.Value), Not(Eq(fv.L[0], IntLit(0))), ci)
				st.events = append(st.events, Event{Kind: "extern", Callee: "dynamic-call:" + valName(c.Value), Mode: "dynamic", SVs: args, Instr: ci})
				e.havocAll(st)
			}
			e.wfAssume(st, res)
			k(st, res)
			return
		}
	} else if mc, ok := c.Value.(*ssa.MakeClosure); ok {
		for _, b := range mc.Bindings {
			binds = append(binds, e.val(st, b))
		}
	}
	name := fnName(callee)
	var res SV
	if e.hooks != nil && e.hooks.OnCall(e, st, ci, name, args, &res) {
		k(st, res)
		return
	}
	if sp := e.specs.Lookup(name); sp != nil && !sp.Inline && !(e.forceInline[name] && len(callee.Blocks) > 0 && callee != fr.fn && e.inlineDepth < maxInlineDepth) {
		res := e.applyContract(fr, st, ci, callee, sp, args, rt)
		k(st, res)
		return
	}
	if e.bounded > 0 && e.hooks == nil {
		// bounded fallback: sorting with a comparator the contracts do not describe is executed by enumeration
		if key := calleeKey(callee); key == "slices.SortFunc" || key == "slices.SortStableFunc" || key == "sort.Slice" || key == "sort.SliceStable" {
			if e.sortEnum(fr, ci, key, args, st, k) {
				return
			}
		}
	}
	_, modelled := externs[calleeKey(callee)]
	if (e.ld.isModuleFn(callee) && len(callee.Blocks) > 0) || (!modelled && e.inlineDepth < maxInlineDepth && e.stdInlinable(callee, 0)) {
		if e.inlineDepth >= maxInlineDepth || callee == fr.fn {
			if e.bounded > 0 {
				// bounded fallback: deeper recursion is beyond the bound
				e.boundHits++
				return
			}
			if e.hooks != nil {
				e.errorf("%s: call to %s needs a contract (recursive or too deep to inline)", fnName(fr.fn), name)
				return
			}
			// a recursive helper without a contract cannot be summarised: the proof is lost at this call (a failed
			// obligation, so that the bounded fallback decides), everything reachable is havocked
			props := append(append([]string{}, e.propsFor(fr, "safety")...), e.propsFor(fr, "")...)
			e.oblige(st, fnName(e.top)+"/uncontracted-recursion:"+name, props, BoolLit(false),
				"call to a recursive (or too deeply nested) function without a contract at "+e.ld.pos(ci.Pos()))
			e.havocAll(st)
			res := e.freshSV("callres", rt)
			e.wfAssume(st, res)
			k(st, res)
			return
		}
		if e.bounded > 0 {
			// a function unfolded inside itself: at most two levels deep within the bound
			if e.recDepth == nil {
				e.recDepth = map[*ssa.Function]int{}
			}
			if e.recDepth[callee] >= 2 {
				e.boundHits++
				return
			}
			e.recDepth[callee]++
			defer func() { e.recDepth[callee]-- }()
		}
		e.inlineDepth++
		depth := e.inlineDepth
		e.runFunc(callee, nil, args, binds, st, true, func(st2 *State, results []SV) {
			saved := e.inlineDepth
			e.inlineDepth = depth - 1
			if e.bounded > 0 {
				// the rest of the caller runs inside this continuation: it is not nested in the callee
				e.recDepth[callee]--
				defer func() { e.recDepth[callee]++ }()
			}
			out := SV{T: rt}
			for _, r := range results {
				out.L = append(out.L, r.L...)
			}
			if len(results) == 1 {
				out.Fn = results[0].Fn
				out.Addr = results[0].Addr
				out.Prot = results[0].Prot
			}
			k(st2, out)
			e.inlineDepth = saved
		}, fr.pan)
		e.inlineDepth = depth - 1
		return
	}
	var fobj *types.Func
	if o, ok := callee.Object().(*types.Func); ok {
		fobj = o
	}
	res = e.extern(fr, st, ci, calleeKey(callee), fobj, args, rt)
	k(st, res)
}

func calleeKey(f *ssa.Function) string {
	if o := f.Origin(); o != nil && o != f {
		f = o
	}
	return f.String()
}

func (e *Exec) havocAll(st *State) {
	na := e.ctx.fresh("alloc", SInt)
	st.pc = append(st.pc, Ge(na, st.alloc))
	st.alloc = na
	for name, srt := range e.ctx.heapSort {
		if strings.HasPrefix(name, "G:") && e.immutableGlobal(name) {
			continue
		}
		st.heap[name] = e.ctx.fresh("havoc."+name, srt)
		e.ctx.closed(name, st.heap[name], st.alloc)
	}
	e.markHavoc(st, "H:", "A:", "M:")
}

func (e *Exec) immutableGlobal(name string) bool { return true }

func (e *Exec) builtin(fr *frame, ci ssa.CallInstruction, b *ssa.Builtin, args []SV, st *State, k func(*State, SV)) {
	switch b.Name() {
	case "len":
		a := args[0]
		switch t := a.T.Underlying().(type) {
		case *types.Slice:
			k(st, scalar(types.Typ[types.Int], a.L[2]))
		case *types.Basic:
			k(st, scalar(types.Typ[types.Int], app(SInt, "str.len", a.L[0])))
		case *types.Map:
			n := e.ctx.uf("maplen:"+typeKey(t), SInt, a.L[0], e.mapDom(st, t, a.L[0]))
			st.pc = append(st.pc, Ge(n, IntLit(0)))
			k(st, scalar(types.Typ[types.Int], n))
		default:
			e.abort(st, "len of "+typeKey(a.T))
		}
	case "cap":
		k(st, scalar(types.Typ[types.Int], args[0].L[3]))
	case "append":
		e.appendOp(fr, ci, args, st, k)
	case "ssa:wrapnilchk":
		k(st, args[0])
	case "delete":
		// delete(m, key): the key leaves the domain; a nil map is a no-op
		if mt, ok := args[0].T.Underlying().(*types.Map); ok && len(args[0].L) == 1 && len(args[1].L) == 1 {
			cls := "M:" + typeKey(mt.Key()) + ":" + typeKey(mt.Elem())
			ks := flatten(mt.Key())[0].Sort
			dn := cls + "#dom"
			dom := e.heapGet(st, dn, ArrSort(SInt, ArrSort(ks, SBool)))
			m := args[0].L[0]
			e.heapSet(st, dn, Ite(Eq(m, IntLit(0)), dom, Store(dom, m, Store(Select(dom, m), args[1].L[0], BoolLit(false)))))
			k(st, SV{})
			return
		}
		e.abort(st, "delete on "+typeKey(args[0].T))
	default:
		if e.hooks != nil {
			e.hooks.OnForbidden(e, st, ci, "builtin "+b.Name())
			return
		}
		e.abort(st, "unsupported builtin "+b.Name())
	}
}

// appendOp models append(s, v) for a single appended element with Go's real
// rule: in place iff len < cap, otherwise a fresh backing array.
func (e *Exec) appendOp(fr *frame, ci ssa.CallInstruction, args []SV, st *State, k func(*State, SV)) {
	s, vs := args[0], args[1]
	et := s.T.Underlying().(*types.Slice).Elem()
	if n, ok := litInt(vs.L[2]); !ok || n != 1 {
		e.abort(st, "append of more than one element is not modelled")
		return
	}
	if e.hooks != nil {
		var dummy SV
		e.hooks.OnCall(e, st, ci, "builtin.append", args, &dummy)
	}
	fits := e.ctx.def("fits", Lt(s.L[2], s.L[3]))
	newarr := e.allocRef(st)
	newcap := e.ctx.fresh("newcap", SInt)
	newlen := Add(s.L[2], IntLit(1))
	st.pc = append(st.pc, Ge(newcap, newlen))
	for _, l := range flatten(et) {
		name := heapSym("A", typeKey(et), l.Path)
		A := e.heapGet(st, name, ArrSort(SInt, ArrSort(SInt, l.Sort)))
		v := Select(Select(A, vs.L[0]), vs.L[1])
		a1 := Store(A, s.L[0], Store(Select(A, s.L[0]), CellIdx(s.L[1], s.L[2]), v))
		cp := e.ctx.fresh("copy", ArrSort(SInt, l.Sort))
		q := "i!cp"
		st.pc = append(st.pc, Term{fmt.Sprintf("(forall ((%s Int)) (=> (and (<= 0 %s) (< %s %s)) (= (select %s %s) (select (select %s %s) %s))))",
			q, q, q, s.L[2].S, cp.S, q, A.S, s.L[0].S, CellIdx(s.L[1], Term{q, SInt}).S), SBool})
		a2 := Store(A, newarr, Store(cp, s.L[2], v))
		e.heapSet(st, name, Ite(fits, a1, a2))
	}
	res := SV{T: s.T, L: []Term{
		e.ctx.def("app.arr", Ite(fits, s.L[0], newarr)),
		e.ctx.def("app.off", Ite(fits, s.L[1], IntLit(0))),
		newlen,
		e.ctx.def("app.cap", Ite(fits, s.L[3], newcap)),
	}, Prot: s.Prot}
	k(st, res)
}

// applyContract replaces a call by the callee's contract.
func (e *Exec) applyContract(fr *frame, st *State, ci ssa.CallInstruction, callee *ssa.Function, sp *FuncSpec, args []SV, rt types.Type) SV {
	vars := map[string]SV{}
	bindParams(callee, func(i int, p *ssa.Parameter) (SV, bool) {
		if i >= len(args) {
			return SV{}, false
		}
		a := args[i]
		a.T = p.Type()
		return a, true
	}, vars)
	pre := st.clone()
	env := &specEnv{goal: true, into: st, st: st, old: pre, vars: vars, oldVars: vars, pkg: pkgOf(callee)}
	cname := fnName(fr.fn)
	for _, rq := range sp.Requires {
		props := rq.Props
		if len(props) == 0 {
			props = e.propsFor(fr, "safety")
		}
		// a violated precondition may make the callee panic: the obligation also serves the callee's safety properties
		for _, sp2 := range sp.SafetyProps {
			if !hasPropExact(props, sp2) {
				props = append(append([]string{}, props...), sp2)
			}
		}
		g, err := e.evalSpecBool(rq.Expr, env)
		if err != nil {
			e.notes = appendUnique(e.notes, fmt.Sprintf("%s: requires %s of %s: %v", cname, rq.Label, sp.Name, err))
			e.oblige(st, fmt.Sprintf("%s/call-pre:%s:%s", cname, sp.Name, rq.Label), props, BoolLit(false), fmt.Sprintf("contract clause cannot be evaluated at this call: %v", err))
			continue
		}
		e.oblige(st, fmt.Sprintf("%s/call-pre:%s:%s", cname, sp.Name, rq.Label), props, g, e.ld.pos(ci.Pos()))
		st.pc = append(st.pc, g)
	}
	if sp.Decreases == nil && callee == e.top {
		e.oblige(st, fmt.Sprintf("%s/decreases:%s", cname, sp.Name), e.propsFor(fr, "safety"), BoolLit(false),
			"recursive call without a termination measure in the contract ("+e.ld.pos(ci.Pos())+")")
	}
	if sp.Decreases != nil && callee == e.top {
		// recursive call: the measure must decrease
		m, err := e.evalSpec(sp.Decreases, env)
		m0, err0 := e.evalSpec(sp.Decreases, &specEnv{st: e.entry, old: e.entry, vars: e.entryVars, oldVars: e.entryVars, pkg: pkgOf(callee)})
		if err == nil && err0 == nil {
			e.oblige(st, fmt.Sprintf("%s/decreases:%s", cname, sp.Name), e.propsFor(fr, "safety"), And(Lt(m.L[0], m0.L[0]), Ge(m0.L[0], IntLit(0))), e.ld.pos(ci.Pos()))
		}
	}
	allocPre := st.alloc
	na := e.ctx.fresh("alloc", SInt)
	st.pc = append(st.pc, Ge(na, st.alloc))
	st.alloc = na
	// classes the callee may write without listing them in modifies: by its (checked) frame condition
	// every object that existed before the call is unchanged there, objects it allocated are arbitrary
	var framed []string
	for cls := range e.staticWrites(callee) {
		listed := false
		for _, m := range sp.Modifies {
			if strings.HasPrefix(cls, m) || strings.HasPrefix(m, cls) {
				listed = true
			}
		}
		if listed || strings.HasPrefix(cls, "G:") {
			continue
		}
		framed = append(framed, cls)
		for name, srt := range e.ctx.heapSort {
			if !strings.HasPrefix(name, cls) || !strings.HasPrefix(string(srt), "(Array Int ") {
				continue
			}
			old := e.heapGet(st, name, srt)
			nw := e.ctx.fresh("fresh."+name, srt)
			e.ctx.closed(name, nw, st.alloc)
			st.heap[name] = e.ctx.def("framed", Mix(old, nw, allocPre))
		}
	}
	if len(framed) > 0 {
		sort.Strings(framed)
		e.markFrame(st, allocPre, framed...)
	}
	e.havocClasses(st, sp.Modifies)
	res := e.freshSV("res."+callee.Name(), rt)
	e.wfAssume(st, res)
	if sp.Functional != "" {
		var as []Term
		for _, a := range args {
			as = append(as, a.L...)
		}
		for k := range res.L {
			st.pc = append(st.pc, Eq(res.L[k], e.ctx.uf(functionalName(sp.Functional, k, len(res.L)), res.L[k].Sort, as...)))
		}
	} else if !sp.Trusted || true {
		if len(sp.Modifies) > 0 || sp.Functional == "" {
			st.impure = append(st.impure, "calls "+sp.Name)
		}
	}
	e.bindResults(vars, callee, sp, res)
	env2 := &specEnv{noTrace: true, into: st, st: st, old: pre, vars: vars, oldVars: vars, pkg: pkgOf(callee)}
	for _, en := range sp.Ensures {
		g, err := e.evalSpecBool(en.Expr, env2)
		if err == errTraceClause || (err != nil && strings.Contains(err.Error(), errTraceClause.Error())) {
			continue // describes the callee's internal trace; the caller sees the call as one event
		}
		if err != nil {
			// cannot be assumed: the caller simply knows less
			e.notes = appendUnique(e.notes, fmt.Sprintf("%s: ensures %s of %s not assumed: %v", cname, en.Label, sp.Name, err))
			continue
		}
		st.pc = append(st.pc, g)
	}
	st.events = append(st.events, Event{Kind: "call", Callee: "call:" + sp.Name, Mode: sp.effects(), SVs: args, Terms: res.L, Res: res, Instr: ci})
	return res
}

func pkgOf(f *ssa.Function) *types.Package {
	for f != nil {
		if f.Pkg != nil {
			return f.Pkg.Pkg
		}
		if f.Parent() != nil {
			f = f.Parent()
			continue
		}
		if o := f.Origin(); o != nil && o != f {
			f = o
			continue
		}
		break
	}
	return nil
}

func (e *Exec) bindResults(vars map[string]SV, fn *ssa.Function, sp *FuncSpec, res SV) {
	results := fn.Signature.Results()
	lo := 0
	for i := 0; i < results.Len(); i++ {
		n := len(flatten(results.At(i).Type()))
		v := SV{T: results.At(i).Type(), L: res.L[lo : lo+n]}
		lo += n
		vars[fmt.Sprintf("r%d", i)] = v
		if results.At(i).Name() != "" && results.At(i).Name() != "_" {
			vars[results.At(i).Name()] = v
		}
		if sp != nil && i < len(sp.ResultNames) {
			vars[sp.ResultNames[i]] = v
		}
		if results.Len() == 1 {
			if _, taken := vars["r"]; !taken {
				vars["r"] = v
			}
		}
	}
}

func (e *Exec) havocClasses(st *State, prefixes []string) {
	for _, p := range prefixes {
		for name, srt := range e.ctx.heapSort {
			if strings.HasPrefix(name, p) {
				st.heap[name] = e.ctx.fresh("havoc."+name, srt)
				st.written[name] = true
				e.ctx.closed(name, st.heap[name], st.alloc)
			}
		}
		e.markHavoc(st, p)
	}
}

// effects of a function under contract: declared classes, default pure alloc.
func (sp *FuncSpec) effects() string {
	if sp.Effect == "" {
		return "pure alloc"
	}
	return sp.Effect + " pure alloc"
}

func functionalName(base string, k, n int) string {
	if n == 1 {
		return base
	}
	return fmt.Sprintf("%s#%d", base, k)
}

func hasPropExact(props []string, p string) bool {
	for _, x := range props {
		if x == p {
			return true
		}
	}
	return false
}


// sortEnum (bounded mode only): slices.SortFunc / sort.Slice on a slice of at most 3 elements is executed by
// enumerating the permutations of its cells and keeping those on which the caller's own comparator, executed
// symbolically on adjacent elements, reports the right order. Longer slices are beyond the bound (pruned).
func (e *Exec) sortEnum(fr *frame, ci ssa.CallInstruction, key string, args []SV, st *State, k func(*State, SV)) bool {
	if len(args) != 2 || args[1].Fn == nil {
		return false
	}
	byIndex := strings.HasPrefix(key, "sort.")
	var s SV
	if byIndex {
		mi, ok := ci.Common().Args[0].(*ssa.MakeInterface)
		if !ok {
			return false
		}
		s = e.val(st, mi.X)
	} else {
		s = args[0]
	}
	slt, ok := s.T.Underlying().(*types.Slice)
	if !ok || len(s.L) != 4 {
		return false
	}
	leaves := flatten(slt.Elem())
	cmp := args[1].Fn
	perms := map[int][][]int{0: {{}}, 1: {{0}}, 2: {{0, 1}, {1, 0}}, 3: {{0, 1, 2}, {0, 2, 1}, {1, 0, 2}, {1, 2, 0}, {2, 0, 1}, {2, 1, 0}}}
	e.boundHits++ // slices longer than 3 are not explored
	for n := 0; n <= 3; n++ {
		for _, pi := range perms[n] {
			st2 := st.clone()
			st2.pc = append(st2.pc, Eq(s.L[2], IntLit(int64(n))))
			// new cells: position i holds the old cell pi[i]
			for _, l := range leaves {
				name := heapSym("A", typeKey(slt.Elem()), l.Path)
				A := e.heapGet(st2, name, ArrSort(SInt, ArrSort(SInt, l.Sort)))
				oldRow := Select(A, s.L[0])
				row := oldRow
				for i := 0; i < n; i++ {
					row = Store(row, CellIdx(s.L[1], IntLit(int64(i))), Select(oldRow, CellIdx(s.L[1], IntLit(int64(pi[i])))))
				}
				e.heapSet(st2, name, Store(A, s.L[0], e.ctx.def("sorted", row)))
			}
			elem := func(stx *State, i int) SV {
				out := SV{T: slt.Elem()}
				for _, l := range leaves {
					name := heapSym("A", typeKey(slt.Elem()), l.Path)
					A := e.heapGet(stx, name, ArrSort(SInt, ArrSort(SInt, l.Sort)))
					out.L = append(out.L, Select(Select(A, s.L[0]), CellIdx(s.L[1], IntLit(int64(i)))))
				}
				return out
			}
			var chain func(stx *State, i int)
			chain = func(stx *State, i int) {
				if i+1 >= n {
					k(stx, SV{})
					return
				}
				var cargs []SV
				if byIndex {
					// less(i+1, i) must be false
					cargs = []SV{scalar(types.Typ[types.Int], IntLit(int64(i+1))), scalar(types.Typ[types.Int], IntLit(int64(i)))}
				} else {
					cargs = []SV{elem(stx, i), elem(stx, i+1)}
				}
				e.inlineDepth++
				e.runFunc(cmp.Fn, nil, cargs, cmp.Bindings, stx, true, func(st3 *State, results []SV) {
					if len(results) != 1 || len(results[0].L) != 1 {
						return
					}
					r := results[0].L[0]
					if byIndex {
						st3.pc = append(st3.pc, Not(r))
					} else {
						st3.pc = append(st3.pc, Le(r, IntLit(0)))
					}
					chain(st3, i+1)
				}, fr.pan)
				e.inlineDepth--
			}
			chain(st2, 0)
		}
	}
	return true
}
