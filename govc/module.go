package main

// Whole-module obligations: SSA scans over every non-test function of the
// module (effect frame, determinism) and obligations on the parse tree of the
// moqTemplate constant extracted from the working tree.

import (
	"fmt"
	"go/constant"
	"go/types"
	"regexp"
	"sort"
	"strings"
	"text/template/parse"

	"golang.org/x/tools/go/packages"
	"golang.org/x/tools/go/ssa"
)

// effect classes of every dependency function the module may call. Anything
// not listed (and not an accessor of go/types, go/ast, go/token) fails closed.
var extraEffects = map[string]string{
	// package main: flag parsing and diagnostics
	"flag.StringVar": "flag", "flag.BoolVar": "flag", "flag.Bool": "flag", "flag.Parse": "flag", "flag.Args": "flag",
	"flag.PrintDefaults": "stdout", "flag.Usage": "stdout",
	"fmt.Println": "stdout", "fmt.Printf": "stdout", "fmt.Fprintln": "io-write",
	"strings.NewReplacer": "alloc",
	"error.Error":         "pure",
}

// APIs that would break determinism or the file-system frame if they appeared.
var denyPrefixes = []string{"time.", "math/rand", "crypto/rand", "os.Getenv", "os.Environ", "os.Getpid", "os.Hostname", "os.Create", "os.OpenFile",
	"os.Mkdir", "os.Rename", "os.Chmod", "os.Chown", "os.Symlink", "os.Link", "os.RemoveAll", "os.Truncate", "os.Chdir", "io/ioutil.", "os/exec.", "(*os.File).Write",
	"os.CreateTemp", "os.MkdirTemp", "runtime.", "sync.", "(*sync."}

func effectOf(name string, fobj *types.Func) (string, bool) {
	if m, ok := externs[name]; ok {
		return m.Effect, true
	}
	if e, ok := extraEffects[name]; ok {
		return e, true
	}
	if fobj != nil && fobj.Pkg() != nil && (pureAccessorPkgs[fobj.Pkg().Path()] || pureStdPkgs[fobj.Pkg().Path()]) {
		return "pure", true
	}
	return "", false
}

type extCall struct {
	caller string
	callee string
	effect string
	known  bool
	pos    string
}

func moduleExternalCalls(ld *Loaded) (calls []extCall, goSelect []string, mapRanges []string) {
	var names []string
	for n := range ld.funcs {
		names = append(names, n)
	}
	sort.Strings(names)
	prog := ld.programPackages()
	for _, n := range names {
		f := ld.funcs[n]
		if !ld.isModuleFn(f) {
			continue
		}
		if p := pkgOf(f); p == nil || !prog[p.Path()] {
			continue // sample packages (example, generate) are not part of the moq program
		}
		if f.Synthetic != "" && f.Name() != "init" {
			continue
		}
		for _, b := range f.Blocks {
			for _, in := range b.Instrs {
				switch x := in.(type) {
				case *ssa.Go:
					goSelect = append(goSelect, n+": go statement at "+ld.pos(x.Pos()))
				case *ssa.Select:
					goSelect = append(goSelect, n+": select at "+ld.pos(x.Pos()))
				case *ssa.Range:
					if _, ok := x.X.Type().Underlying().(*types.Map); ok {
						mapRanges = append(mapRanges, n)
					}
				}
				ci, ok := in.(ssa.CallInstruction)
				if !ok {
					continue
				}
				c := ci.Common()
				if _, ok := c.Value.(*ssa.Builtin); ok {
					continue
				}
				var name string
				var fobj *types.Func
				if c.IsInvoke() {
					name = typeKey(c.Value.Type()) + "." + c.Method.Name()
					fobj = c.Method
					if fobj.Pkg() != nil && ld.modPaths[fobj.Pkg().Path()] {
						continue
					}
				} else if callee := c.StaticCallee(); callee != nil {
					if ld.isModuleFn(callee) {
						continue
					}
					if callee.Name() == "init" && callee.Signature.Recv() == nil && callee.Signature.Params().Len() == 0 {
						continue // package initialisers of dependencies
					}
					name = calleeKey(callee)
					fobj, _ = callee.Object().(*types.Func)
				} else {
					continue // dynamic call of a function value (closures of the module)
				}
				eff, known := effectOf(name, fobj)
				calls = append(calls, extCall{caller: n, callee: name, effect: eff, known: known, pos: ld.pos(in.Pos())})
			}
		}
	}
	return
}

// moduleCallers: static call graph of the module, callee name -> set of caller names (a closure counts as its
// enclosing function, on both sides)
func moduleCallers(ld *Loaded) map[string]map[string]bool {
	outer := func(f *ssa.Function) *ssa.Function {
		for f.Parent() != nil {
			f = f.Parent()
		}
		return f
	}
	res := map[string]map[string]bool{}
	for _, f := range ld.funcs {
		if !ld.isModuleFn(f) {
			continue
		}
		for _, b := range f.Blocks {
			for _, in := range b.Instrs {
				ci, ok := in.(ssa.CallInstruction)
				if !ok {
					continue
				}
				cal := ci.Common().StaticCallee()
				if cal == nil || !ld.isModuleFn(cal) {
					continue
				}
				from, to := fnName(outer(f)), fnName(outer(cal))
				if from == to {
					continue
				}
				if res[to] == nil {
					res[to] = map[string]bool{}
				}
				res[to][from] = true
			}
		}
	}
	return res
}

func tplOb(name string, ok bool, detail string) *ObResult {
	return &ObResult{Name: name, Backend: "template-ast", OK: ok, Status: okStr(ok), N: 1, Detail: detail}
}

func scanOb(name string, ok bool, detail string) *ObResult {
	return &ObResult{Name: name, Backend: "ssa-scan", OK: ok, Status: okStr(ok), N: 1, Detail: detail}
}

func moduleObligations(ld *Loaded, specs *SpecDB, prop, repo string) []*ObResult {
	var out []*ObResult
	add := func(props string, r *ObResult) {
		if hasProp(strings.Fields(props), prop) {
			out = append(out, r)
		}
	}
	switch prop {
	case "C14", "C17", "C18", "C15":
		calls, goSel, mapRanges := moduleExternalCalls(ld)
		var unknown, denied, writers []string
		fsWriteIn := map[string][]string{}
		for _, c := range calls {
			if !c.known {
				unknown = appendUnique(unknown, fmt.Sprintf("%s calls %s (%s)", c.caller, c.callee, c.pos))
			}
			for _, d := range denyPrefixes {
				if c.callee == d || (strings.HasSuffix(d, ".") || strings.HasSuffix(d, "rand")) && strings.HasPrefix(c.callee, d) {
					denied = appendUnique(denied, fmt.Sprintf("%s calls %s (%s)", c.caller, c.callee, c.pos))
				}
			}
			if c.effect == "fs-write" {
				fsWriteIn[c.caller] = append(fsWriteIn[c.caller], c.callee)
				writers = appendUnique(writers, c.caller)
			}
		}
		add("C14 C18", scanOb("module/unknown-external", len(unknown) == 0, strings.Join(unknown, "; ")))
		add("C14 C18", scanOb("module/no-denied-api", len(denied) == 0, "nondeterministic or file-system-writing API reachable: "+strings.Join(denied, "; ")))
		add("C14", scanOb("module/no-goroutines-or-select", len(goSel) == 0, strings.Join(goSel, "; ")))
		// a range over a map inside a helper without a contract is executed in place by the verification of
		// the functions under contract that call it: it is accounted to those
		callersOf := moduleCallers(ld)
		var attributed []string
		var up func(name string, depth int, seen map[string]bool)
		up = func(name string, depth int, seen map[string]bool) {
			if i := strings.Index(name, "$"); i >= 0 {
				name = name[:i]
			}
			if seen[name] {
				return
			}
			seen[name] = true
			if specs.Funcs[name] != nil || depth > 5 || len(callersOf[name]) == 0 {
				attributed = append(attributed, name)
				return
			}
			for c := range callersOf[name] {
				up(c, depth+1, seen)
			}
		}
		for _, n := range mapRanges {
			up(n, 0, map[string]bool{})
		}
		mapRanges = attributed
		sort.Strings(mapRanges)
		wantRanges := []string{"registry.MethodScope.resolveImportVarConflicts", "registry.Registry.Imports", "registry.Registry.searchImport"}
		// every site must be one of the accounted ones (a site that disappears takes its order dependence with it)
		budget := map[string]int{}
		for _, w := range wantRanges {
			budget[w]++
		}
		okRanges := true
		for _, m := range mapRanges {
			budget[m]--
			if budget[m] < 0 {
				okRanges = false
			}
		}
		add("C14", scanOb("module/map-ranges-accounted", okRanges,
			fmt.Sprintf("range-over-map sites %v; order-independence is proved for %v only", mapRanges, wantRanges)))
		sort.Strings(writers)
		// helpers of run: functions of package main without a contract that are called from nowhere but run (or
		// another such helper). run's verification executes their bodies in place, so its effect-trace
		// postconditions (what is written, when, under which flags) cover the calls they make.
		callers := moduleCallers(ld)
		var isRunHelper func(name string, depth int) bool
		isRunHelper = func(name string, depth int) bool {
			if name == "main.run" {
				return true
			}
			if depth > 4 || !strings.HasPrefix(name, "main.") || specs.Lookup(name) != nil || len(callers[name]) == 0 {
				return false
			}
			for c := range callers[name] {
				if !isRunHelper(c, depth+1) {
					return false
				}
			}
			return true
		}
		okW := len(writers) >= 1
		var got []string
		for _, w := range writers {
			wo := w
			if i := strings.Index(wo, "$"); i >= 0 {
				wo = wo[:i]
			}
			if !isRunHelper(wo, 0) {
				okW = false
			}
			got = append(got, fsWriteIn[w]...)
		}
		if okW {
			sort.Strings(got)
			okW = strings.Join(got, ",") == "os.MkdirAll,os.Remove,os.WriteFile"
		}
		add("C17 C18 C15", scanOb("module/fs-writers-only-in-run", okW, fmt.Sprintf("functions calling file-system-writing APIs: %v (%v)", writers, fsWriteIn)))
	}
	// type and import text is rendered only while the template executes, i.e. after every import and variable
	// of every mock has been registered: the contracts of Var.TypeString / Package.Qualifier describe the text
	// in terms of the registry state at the time of the call, and the properties speak about the final state
	if hasProp([]string{"C01", "C02", "C09", "C10", "C11"}, prop) {
		renderers := map[string]bool{"registry.Var.TypeString": true, "registry.Var.packageQualifier": true,
			"template.ParamData.TypeString": true, "template.ParamData.MethodArg": true, "template.MethodData.ArgList": true,
			"template.MethodData.ReturnArgTypeList": true, "template.templateFuncs[ImportStatement]": true, "template.templateFuncs[SyncPkgQualifier]": true}
		var early []string
		for callee, cs := range moduleCallers(ld) {
			if !renderers[callee] {
				continue
			}
			for c := range cs {
				if !strings.HasPrefix(c, "template.") && !strings.HasPrefix(c, "registry.Var.") {
					early = append(early, c+" calls "+callee)
				}
			}
		}
		sort.Strings(early)
		add("C01 C02 C09 C10 C11", scanOb("module/rendering-only-under-template-execution", len(early) == 0,
			"type strings and import statements are rendered by package template only (after registration is complete); rendered ahead of time: "+strings.Join(early, "; ")))
	}
	// template obligations
	switch prop {
	case "C01", "C02", "C03", "C04", "C05", "C06", "C07", "C08", "C09", "C10", "C11", "C13", "C14", "C16", "C19", "C20":
		text, ok := templateText(ld)
		add("C01 C16 C19", tplOb("template/constant-extracted", ok, "moqTemplate must be initialised with a string constant"))
		if !ok {
			return out
		}
		funcs := map[string]any{"ImportStatement": 1, "SyncPkgQualifier": 1, "Exported": 1, "not": 1, "and": 1, "or": 1, "eq": 1, "ne": 1, "len": 1, "index": 1, "print": 1, "printf": 1}
		trees, err := parse.Parse("moq", text, "{{", "}}", funcs)
		add("C01 C19", tplOb("template/parses", err == nil, fmt.Sprint(err)))
		if err != nil {
			return out
		}
		tree := trees["moq"]
		// the text patterns below are matched on the template with the spelling of its actions normalised
		// ({{ .Name }}, {{- .Name -}} and {{.Name}} are the same action; "a|b" and "a | b" the same pipeline)
		raw := text
		text = regexp.MustCompile(`\{\{-?[ \t]*`).ReplaceAllString(text, "{{")
		text = regexp.MustCompile(`[ \t]*-?\}\}`).ReplaceAllString(text, "}}")
		text = regexp.MustCompile(`(\{\{[^}]*?)[ \t]*\|[ \t]*`).ReplaceAllString(text, "$1 | ")
		_ = raw
		var ranges, ifs, actions []string
		walkTemplate(tree.Root, &ranges, &ifs, &actions)
		// sub-templates ({{define}}): their ranges and conditions count like those of the main template, with
		// the dot replaced by the argument they are invoked with
		var subNames []string
		for name := range trees {
			if name != "moq" {
				subNames = append(subNames, name)
			}
		}
		sort.Strings(subNames)
		for _, name := range subNames {
			argRe := regexp.MustCompile(`\{\{-? *template "` + regexp.QuoteMeta(name) + `" ([^}]*?) *-?\}\}`)
			args := map[string]bool{}
			for _, m := range argRe.FindAllStringSubmatch(text, -1) {
				args[strings.TrimSpace(m[1])] = true
			}
			var r2, i2, a2 []string
			if trees[name] != nil && trees[name].Root != nil {
				walkTemplate(trees[name].Root, &r2, &i2, &a2)
			}
			subst := func(xs []string, out *[]string) {
				for _, x := range xs {
					if len(args) == 0 {
						*out = append(*out, name+":"+x)
					}
					for a := range args {
						y := x
						if y == "." {
							y = a
						} else if strings.HasSuffix(y, ":= .") {
							y = strings.TrimSuffix(y, ".") + a
						} else if strings.HasPrefix(y, ".") {
							y = a + y
						}
						*out = append(*out, normTemplateExpr(y, nil))
					}
				}
			}
			subst(r2, &ranges)
			subst(i2, &ifs)
			actions = append(actions, a2...)
		}
		allowedRange := map[string]bool{".Imports": true, ".Mocks": true, ".Methods": true, ".Params": true, ".Returns": true, ".TypeParams": true}
		allowedIf := map[string]bool{"$.SkipEnsure": true, "$.StubImpl": true, "$.WithResets": true, ".TypeParams": true, ".Returns": true, "$index": true, ".Constraint": true}
		var badR, badI []string
		for _, r := range ranges {
			k := r
			if i := strings.Index(k, ":= "); i >= 0 {
				k = k[i+3:]
			}
			if !allowedRange[k] {
				badR = appendUnique(badR, r)
			}
		}
		for _, c := range ifs {
			if !allowedIf[c] {
				badI = appendUnique(badI, c)
			}
		}
		add("C02 C03 C04 C05 C06 C07 C08 C09 C20", tplOb("template/uniform", len(badR) == 0 && len(badI) == 0,
			fmt.Sprintf("the arity generalisation of the stage-2 proofs needs every range/if of the template to be data-independent per element; unexpected range %v, unexpected if %v", badR, badI)))
		add("C14", tplOb("template/no-range-over-map", len(badR) == 0, fmt.Sprint(badR)))
		add("C16", tplOb("template/marker-first", strings.HasPrefix(text, "// Code generated by moq; DO NOT EDIT.\n") &&
			strings.Index(text, "\npackage {{.PkgName}}\n") > 0, "the template starts with the generated-code marker, the package clause follows"))
		fieldDecl := "{{.Name}}Func func({{.ArgList}}) {{.ReturnArgTypeList}}\n"
		header := ") {{.Name}}({{.ArgList}}) {{.ReturnArgTypeList}} {"
		add("C02", tplOb("template/sig-identical", strings.Contains(text, fieldDecl) && strings.Contains(text, header),
			"function field type and method header are rendered by the same pipelines"))
		add("C13", tplOb("template/record-field-pipeline", strings.Count(text, "{{.Name | Exported}} {{.TypeString}}") == 4 &&
			strings.Contains(text, "{{.Name | Exported}}: {{.Name}},"), "record fields are `.Name | Exported` in the 4 struct renderings and in the literal"))
		add("C07", tplOb("template/panic-message-holes", strings.Contains(text, `panic("{{$mock.MockName}}.{{.Name}}Func: method is nil but {{$mock.InterfaceName}}.{{.Name}} was just called")`),
			"the panic text is template text whose holes are mock name, method name, interface name"))
		add("C09", tplOb("template/typeparam-names-verbatim", !strings.Contains(text, "$param.Name | Exported"),
			"type parameter names are printed as declared: method signatures refer to them by their own name"))
		// identifiers derived from the method name are formed from .Name verbatim
		idents := map[string]*regexp.Regexp{
			"Reset<M>Calls": regexp.MustCompile(`Reset\{\{([^}]*)\}\}Calls`),
			"<M>Func":       regexp.MustCompile(`\{\{([^}]*)\}\}Func\b`),
			"<M>Calls":      regexp.MustCompile(`[^t]\{\{([^}]*)\}\}Calls\b`),
			"lock<M>":       regexp.MustCompile(`lock\{\{([^}]*)\}\}`),
			"calls.<M>":     regexp.MustCompile(`calls\.\{\{([^}]*)\}\}`),
			"method header": regexp.MustCompile(`\) \{\{([^}]*)\}\}\(\{\{\.ArgList\}\}\)`),
		}
		var badIdent []string
		for what, re := range idents {
			ms := re.FindAllStringSubmatch(text, -1)
			if len(ms) == 0 {
				badIdent = append(badIdent, what+": no occurrence")
			}
			for _, m := range ms {
				if strings.TrimSpace(m[1]) != ".Name" {
					badIdent = append(badIdent, fmt.Sprintf("%s formed from {{%s}}", what, m[1]))
				}
			}
		}
		sort.Strings(badIdent)
		add("C02 C03 C04 C08", tplOb("template/method-identifiers-verbatim", len(badIdent) == 0,
			"method, function-field, accessor, reset, lock and record-list identifiers are the method name unmodified: "+strings.Join(badIdent, "; ")))
		// every field or method of the template data that the template reads is one whose content a contract
		// specifies (Mock/methodData/typeParams postconditions for the fields, contracts in package template for
		// the methods): A-tmpl only says the template is executed on the data, so a datum no contract speaks
		// about (e.g. text rendered ahead of time, before the import set is final) is an unspecified input
		dataNames := map[string]bool{}
		for _, n := range strings.Fields("PkgName SrcPkgQualifier Imports Mocks StubImpl SkipEnsure WithResets InterfaceName MockName TypeParams Methods Name Params Returns Constraint Var Variadic String") { // String: go/types Type.String on .Constraint (dependency)
			dataNames[n] = true
		}
		identRe := regexp.MustCompile(`\.([A-Za-z_][A-Za-z0-9_]*)`)
		var unspecified []string
		for _, group := range [][]string{actions, ranges, ifs} {
			for _, a := range group {
				for _, m := range identRe.FindAllStringSubmatch(a, -1) {
					if dataNames[m[1]] {
						continue
					}
					found := false
					for fname, fsp := range specs.Funcs {
						if strings.HasPrefix(fname, "template.") && strings.HasSuffix(fname, "."+m[1]) && !specs.Void[fname] && fsp != nil {
							found = true
						}
					}
					if !found {
						unspecified = appendUnique(unspecified, m[1])
					}
				}
			}
		}
		sort.Strings(unspecified)
		add("C01 C02 C09 C10 C11 C12 C13", tplOb("template/data-under-contract", len(unspecified) == 0,
			"every template-data field or method the template reads is specified by a contract; not specified: "+strings.Join(unspecified, ", ")))
		add("C20", tplOb("template/one-type-per-mock", strings.Count(text, "\ntype {{.MockName}}") == 1 && strings.Contains(text, "{{range $i, $mock := .Mocks}}"),
			"one struct declaration per element of .Mocks, in order"))
	}
	return out
}

func templateText(ld *Loaded) (string, bool) {
	for _, sp := range ld.spkgs {
		if sp == nil || sp.Pkg.Path() != modPrefix+"internal/template" {
			continue
		}
		init := sp.Func("init")
		if init == nil {
			return "", false
		}
		for _, b := range init.Blocks {
			for _, in := range b.Instrs {
				st, ok := in.(*ssa.Store)
				if !ok {
					continue
				}
				g, ok := st.Addr.(*ssa.Global)
				if !ok || g.Name() != "moqTemplate" {
					continue
				}
				c, ok := st.Val.(*ssa.Const)
				if !ok || c.Value == nil || c.Value.Kind() != constant.String {
					return "", false
				}
				return constant.StringVal(c.Value), true
			}
		}
	}
	return "", false
}

func walkTemplate(n parse.Node, ranges, ifs, actions *[]string) {
	walkTemplateCtx(n, ranges, ifs, actions, map[string]bool{})
}

// normTemplateExpr: the data a range or a condition depends on, independent of how the template spells it:
// declarations and a leading `not` are dropped, `$v.Field` of a loop variable is `.Field`, the index variable
// of an enclosing range is `$index`.
func normTemplateExpr(t string, idx map[string]bool) string {
	if k := strings.Index(t, ":= "); k >= 0 {
		t = t[k+3:]
	}
	t = strings.TrimSpace(t)
	for strings.HasPrefix(t, "not ") {
		t = strings.TrimSpace(strings.TrimPrefix(t, "not "))
	}
	if strings.HasPrefix(t, "$") && !strings.HasPrefix(t, "$.") {
		if k := strings.Index(t, "."); k > 0 {
			t = t[k:]
		} else if idx[t] {
			t = "$index"
		}
	}
	return t
}

func walkTemplateCtx(n parse.Node, ranges, ifs, actions *[]string, idx map[string]bool) {
	switch x := n.(type) {
	case *parse.ListNode:
		if x == nil {
			return
		}
		for _, c := range x.Nodes {
			walkTemplateCtx(c, ranges, ifs, actions, idx)
		}
	case *parse.RangeNode:
		*ranges = append(*ranges, normTemplateExpr(x.Pipe.String(), idx))
		inner := map[string]bool{}
		for k, v := range idx {
			inner[k] = v
		}
		if len(x.Pipe.Decl) == 2 {
			inner[x.Pipe.Decl[0].String()] = true
		}
		walkTemplateCtx(x.List, ranges, ifs, actions, inner)
		walkTemplateCtx(x.ElseList, ranges, ifs, actions, idx)
	case *parse.IfNode:
		*ifs = append(*ifs, normTemplateExpr(x.Pipe.String(), idx))
		walkTemplateCtx(x.List, ranges, ifs, actions, idx)
		walkTemplateCtx(x.ElseList, ranges, ifs, actions, idx)
	case *parse.WithNode:
		*ifs = append(*ifs, normTemplateExpr(x.Pipe.String(), idx))
		walkTemplateCtx(x.List, ranges, ifs, actions, idx)
		walkTemplateCtx(x.ElseList, ranges, ifs, actions, idx)
	case *parse.ActionNode:
		*actions = append(*actions, x.Pipe.String())
	}
}

// programPackages: the module packages reachable from package main (the moq program).
func (l *Loaded) programPackages() map[string]bool {
	out := map[string]bool{}
	var visit func(p *packages.Package)
	visit = func(p *packages.Package) {
		if out[p.PkgPath] || !l.modPaths[p.PkgPath] {
			return
		}
		out[p.PkgPath] = true
		for _, im := range p.Imports {
			visit(im)
		}
	}
	for _, p := range l.pkgs {
		if p.Name == "main" && p.PkgPath == "github.com/matryer/moq" {
			visit(p)
		}
	}
	return out
}
