package main

// Path-wise symbolic execution of go/ssa functions, generating verification
// conditions (obligations). Loops are cut at their headers by invariants,
// calls are replaced by contracts (module functions under contract, assumed
// contracts for dependencies) or inlined (small module helpers without one).

import (
	"os"
	"fmt"
	"go/constant"
	"go/token"
	"go/types"
	"sort"
	"strings"

	"golang.org/x/tools/go/ssa"
)

type Obligation struct {
	Name   string   // structural name: <func>/<kind>:<label>
	Props  []string // properties served
	Pc     []Term
	Goal   Term
	NDecls int // number of ctx.decls visible
	Ctx    *Ctx
	Note   string
	Path   string
	Res    SolverResult
	// kind of expectation: normally the goal must be valid ("unsat" of negation).
	// Cover obligations expect satisfiability of the pc.
	Cover bool
	// For replay
	Fn     string
	Inputs map[string]SV
	Top    string // function under contract whose verification produced the obligation (inlined helpers keep their own name in Name)
}

type frame struct {
	fn     *ssa.Function
	spec   *FuncSpec
	ret    func(st *State, results []SV)
	pan    func(st *State, v SV)
	loops  map[*ssa.BasicBlock]*loopInfo
	inline bool
	names  map[string][]dbgRef // debug names (non-phi), in instruction order
}

type loopInfo struct {
	header  *ssa.BasicBlock
	body    map[*ssa.BasicBlock]bool
	ordinal int
	spec    *LoopSpec
}

type Exec struct {
	ld      *Loaded
	ctx     *Ctx
	specs   *SpecDB
	obls    []*Obligation
	top     *ssa.Function
	topSpec *FuncSpec
	hooks   Hooks
	tags    map[string]int64
	usedExt map[string]bool
	errs    []string
	npaths  int
	maxSteps int
	// bounded > 0: bounded fallback mode - loops are unrolled up to that many iterations without using any
	// invariant (longer paths are pruned); evaluable invariants are asserted as facts at each header visit
	bounded   int
	boundHits int
	stdOK     map[*ssa.Function]bool
	recDepth   map[*ssa.Function]int
	totalSteps int
	budgetHit  bool
	forceInline map[string]bool // bounded fallback, second attempt: callees executed in place although they have a contract
	misfit    bool // the contract is keyed to a function literal that is not this one any more
	curPath string
	// entry values for old()
	entry *State
	entryVars map[string]SV
	inlineDepth int
	recordAll bool
	notes  []string
	swMemo map[*ssa.Function]map[string]bool
	onExit func(st *State) // the process terminates (os.Exit): evaluate the postconditions like at a return
}

// Hooks let stage 2 observe memory and call events.
type Hooks interface {
	OnLoad(e *Exec, st *State, a *Addr, v *SV, instr ssa.Instruction)
	OnStore(e *Exec, st *State, a *Addr, v SV, instr ssa.Instruction)
	// OnCall returns true if it handled the call (result placed in *res).
	OnCall(e *Exec, st *State, call ssa.CallInstruction, callee string, args []SV, res *SV) bool
	OnInvoke(e *Exec, st *State, call ssa.CallInstruction, fn SV, args []SV, res SV)
	OnForbidden(e *Exec, st *State, instr ssa.Instruction, what string)
}

func newExec(ld *Loaded, specs *SpecDB) *Exec {
	return &Exec{ld: ld, ctx: newCtx(), specs: specs, tags: map[string]int64{}, usedExt: map[string]bool{}, maxSteps: 20000}
}

func (e *Exec) stepBudget() int {
	if e.hooks != nil {
		return 1 << 30
	}
	if e.bounded > 0 {
		return 30000
	}
	return 120000
}

func (e *Exec) errorf(format string, args ...any) {
	msg := fmt.Sprintf(format, args...)
	for _, x := range e.errs {
		if x == msg {
			return
		}
	}
	e.errs = append(e.errs, msg)
}

func (e *Exec) oblige(st *State, name string, props []string, goal Term, note string) *Obligation {
	o := &Obligation{Name: name, Props: props, Pc: append([]Term(nil), st.pc...), Goal: goal, NDecls: len(e.ctx.decls), Ctx: e.ctx, Note: note, Path: e.curPath}
	if e.top != nil {
		o.Top = fnName(e.top)
	}
	e.obls = append(e.obls, o)
	return o
}

func (e *Exec) tagOf(t types.Type) Term {
	k := typeKey(t)
	n, ok := e.tags[k]
	if !ok {
		n = int64(len(e.tags) + 1)
		e.tags[k] = n
	}
	return IntLit(n)
}

func (e *Exec) dyn(x Term) Term { return e.ctx.uf("dyn", SInt, x) }

// ---------------------------------------------------------------------------

func (e *Exec) newState() *State {
	st := &State{
		heap: map[string]Term{}, heap0: map[string]Term{},
		env: map[ssa.Value]SV{}, held: map[string]string{}, ghost: map[string]Term{},
		written: map[string]bool{}, inLoop: map[*ssa.BasicBlock]*loopCtx{}, unroll: map[*ssa.BasicBlock]int{},
		joins: map[string]joinFact{},
	}
	st.alloc = e.ctx.constSym("alloc@0", SInt)
	st.pc = append(st.pc, Ge(st.alloc, IntLit(1)))
	return st
}

func (e *Exec) analyzeLoops(fn *ssa.Function, spec *FuncSpec) map[*ssa.BasicBlock]*loopInfo {
	loops := map[*ssa.BasicBlock]*loopInfo{}
	for _, b := range fn.Blocks {
		for _, s := range b.Succs {
			if s.Dominates(b) { // back edge b -> s
				li := loops[s]
				if li == nil {
					li = &loopInfo{header: s, body: map[*ssa.BasicBlock]bool{s: true}}
					loops[s] = li
				}
				// natural loop: all nodes that reach b without passing s
				stack := []*ssa.BasicBlock{b}
				for len(stack) > 0 {
					x := stack[len(stack)-1]
					stack = stack[:len(stack)-1]
					if li.body[x] {
						continue
					}
					li.body[x] = true
					for _, p := range x.Preds {
						stack = append(stack, p)
					}
				}
			}
		}
	}
	var hs []*ssa.BasicBlock
	for h := range loops {
		hs = append(hs, h)
	}
	sort.Slice(hs, func(i, j int) bool { return hs[i].Index < hs[j].Index })
	for i, h := range hs {
		loops[h].ordinal = i + 1
		if spec != nil {
			loops[h].spec = spec.Loops[i+1]
		}
	}
	return loops
}

type dbgRef struct {
	v     ssa.Value
	block *ssa.BasicBlock
}

func debugNames(fn *ssa.Function) map[string][]dbgRef {
	m := map[string][]dbgRef{}
	for _, b := range fn.Blocks {
		for _, in := range b.Instrs {
			if d, ok := in.(*ssa.DebugRef); ok {
				if obj := d.Object(); obj != nil {
					if v, ok := obj.(*types.Var); ok && v.IsField() {
						continue
					}
					name := obj.Name()
					if d.IsAddr {
						name = "&" + name
					}
					m[name] = append(m[name], dbgRef{d.X, b})
				}
			}
		}
	}
	return m
}

// pickDebug chooses the SSA value a source name denotes: inside loop li the value used in the
// loop body, otherwise the last bound one.
func pickDebug(refs []dbgRef, st *State, li *loopInfo) (ssa.Value, bool) {
	if li != nil {
		for _, r := range refs {
			if li.body[r.block] {
				if _, isC := r.v.(*ssa.Const); isC {
					continue
				}
				if _, ok := st.env[r.v]; ok {
					return r.v, true
				}
				if _, ok := r.v.(*ssa.Alloc); ok {
					return r.v, true
				}
			}
		}
	}
	for i := len(refs) - 1; i >= 0; i-- {
		switch refs[i].v.(type) {
		case *ssa.Const, *ssa.Global, *ssa.Function:
			continue
		}
		if _, ok := st.env[refs[i].v]; ok {
			return refs[i].v, true
		}
	}
	return nil, false
}

// runFunc executes fn symbolically from st; ret is called once per path that returns.
func (e *Exec) runFunc(fn *ssa.Function, spec *FuncSpec, args []SV, bindings []SV, st *State, inline bool,
	ret func(st *State, results []SV), pan func(st *State, v SV)) {
	if len(fn.Blocks) == 0 {
		e.errorf("function %s has no body", fn.String())
		return
	}
	fr := &frame{fn: fn, spec: spec, ret: ret, pan: pan, inline: inline}
	fr.loops = e.analyzeLoops(fn, spec)
	fr.names = debugNames(fn)
	for i, p := range fn.Params {
		st.env[p] = args[i]
	}
	for i, fv := range fn.FreeVars {
		if i < len(bindings) {
			st.env[fv] = bindings[i]
		}
	}
	e.execBlock(fr, fn.Blocks[0], nil, st)
}

func (e *Exec) val(st *State, v ssa.Value) SV {
	switch x := v.(type) {
	case *ssa.Const:
		return e.constVal(x)
	case *ssa.Global:
		return SV{T: x.Type(), Addr: &Addr{Kind: AGlobal, Class: pkgQual(x.Pkg.Pkg) + "." + x.Name(), T: x.Type().(*types.Pointer).Elem()}}
	case *ssa.Function:
		return SV{T: x.Type(), Fn: &FnVal{Fn: x}, L: []Term{e.fnId(x)}}
	case *ssa.Builtin:
		return SV{T: x.Type()}
	}
	sv, ok := st.env[v]
	if !ok {
		if e.hooks == nil {
			e.abort(st, fmt.Sprintf("value %s (%T) is used before the executor bound it (unmodelled control flow)", v.Name(), v))
		} else {
			e.errorf("%s: value %s (%T) not bound", e.top.Name(), v.Name(), v)
		}
		return e.freshSV("unbound", v.Type())
	}
	return sv
}

func (e *Exec) fnId(f *ssa.Function) Term {
	t := e.ctx.constSym("fn:"+f.String(), SInt)
	if e.ctx.symAxiom[t.S] == "" {
		e.ctx.symAxiom[t.S] = "(assert (not (= " + t.S + " 0)))"
	}
	return t
}

func (e *Exec) constVal(c *ssa.Const) SV {
	t := c.Type()
	if c.Value == nil {
		return zeroSV(t)
	}
	switch c.Value.Kind() {
	case constant.Bool:
		return scalar(t, BoolLit(constant.BoolVal(c.Value)))
	case constant.String:
		return scalar(t, StrLit(constant.StringVal(c.Value)))
	case constant.Int:
		n, _ := constant.Int64Val(c.Value)
		return scalar(t, IntLit(n))
	}
	return scalar(t, e.ctx.constSym("const:"+c.Value.ExactString(), SInt))
}

func (e *Exec) abort(st *State, why string) {
	st.aborted = why
	if e.hooks != nil {
		// emitted code that leaves the modelled subset: nothing is proved about it (a failed schema clause, not an engine error)
		e.hooks.OnForbidden(e, st, nil, why)
		return
	}
	if e.bounded > 0 && why == "step limit" {
		e.boundHits++
		return
	}
	// code that leaves the modelled subset: nothing is proved about this path. Reported as a failed obligation
	// of the function under contract (not as an engine error), so that the other obligations are still decided.
	var props []string
	if e.topSpec != nil {
		props = append(append([]string{}, e.topSpec.Props...), e.topSpec.SafetyProps...)
		for _, c := range e.topSpec.Ensures {
			for _, p := range c.Props {
				if !hasPropExact(props, p) {
					props = append(props, p)
				}
			}
		}
	}
	e.oblige(st, fnName(e.top)+"/outside-verified-subset", props, BoolLit(false), "path aborted: "+why)
}

// execBlock enters block b coming from pred.
func (e *Exec) execBlock(fr *frame, b *ssa.BasicBlock, pred *ssa.BasicBlock, st *State) {
	// budget for one function verification: a proof that needs more than this many block visits (deep recursion
	// through helpers without contracts, each level forking) is not going to be found by path enumeration
	e.totalSteps++
	if debugPaths && e.totalSteps%5000 == 0 {
		fmt.Fprintf(os.Stderr, "steps %d obligations %d pc %d events %d\n", e.totalSteps, len(e.obls), len(st.pc), len(st.events))
	}
	if e.totalSteps > e.stepBudget() || len(e.obls) > 60000 {
		if e.bounded > 0 {
			e.boundHits++
			return
		}
		if !e.budgetHit {
			e.budgetHit = true
			e.abort(st, fmt.Sprintf("path budget of %d block visits exhausted", e.stepBudget()))
		}
		return
	}
	st.nsteps++
	if st.nsteps > e.maxSteps {
		if e.bounded > 0 {
			e.boundHits++
			return
		}
		e.abort(st, "step limit")
		return
	}
	if li, ok := fr.loops[b]; ok {
		unroll := li.spec != nil && li.spec.Unroll > 0
		if unroll && e.bounded > 0 {
			// loop clauses are keyed by ordinal: they are anchored only while the function has the loops it had
			if n, ok := pinnedLoops[fnName(fr.fn)]; !ok || n != len(fr.loops) {
				unroll = false
			}
		}
		if e.bounded > 0 && !unroll {
			// the bound is on the total number of loop iterations (back edges of any loop) along a path
			if pred != nil && li.body[pred] {
				e.terminationStep(fr, li, b, pred, st)
				st.backEdges++
				if st.backEdges > e.bounded {
					e.boundHits++
					return
				}
			}
			e.evalPhis(b, pred, st)
			e.boundedHeader(fr, li, st, pred != nil && li.body[pred])
			e.execInstrs(fr, b, firstNonPhi(b), st)
			return
		}
		if unroll {
			if pred != nil && li.body[pred] {
				st.unroll[b]++
				if st.unroll[b] > li.spec.Unroll {
					e.oblige(st, fnName(fr.fn)+fmt.Sprintf("/loop%d/unroll-bound", li.ordinal), e.propsFor(fr, "safety"), BoolLit(false),
						fmt.Sprintf("loop unrolled more than %d times", li.spec.Unroll))
					return
				}
			}
		} else {
			e.loopHeader(fr, li, b, pred, st)
			return
		}
	}
	// phis
	e.evalPhis(b, pred, st)
	e.execInstrs(fr, b, firstNonPhi(b), st)
}

var intPhiFallback = true

func firstNonPhi(b *ssa.BasicBlock) int {
	i := 0
	for i < len(b.Instrs) {
		if _, ok := b.Instrs[i].(*ssa.Phi); !ok {
			break
		}
		i++
	}
	return i
}

func (e *Exec) evalPhis(b, pred *ssa.BasicBlock, st *State) {
	if pred == nil {
		return
	}
	idx := -1
	for i, p := range b.Preds {
		if p == pred {
			idx = i
		}
	}
	var vals []SV
	var phis []*ssa.Phi
	for _, in := range b.Instrs {
		phi, ok := in.(*ssa.Phi)
		if !ok {
			break
		}
		phis = append(phis, phi)
		vals = append(vals, e.val(st, phi.Edges[idx]))
	}
	for i, phi := range phis {
		v := vals[i]
		v.T = phi.Type()
		st.env[phi] = v
	}
}

var fnAlias = map[*ssa.Function]string{}

func fnName(fn *ssa.Function) string {
	if a, ok := fnAlias[fn]; ok {
		return a
	}
	if fn.Parent() != nil {
		return fnName(fn.Parent()) + "$" + strings.TrimPrefix(fn.Name(), fn.Parent().Name()+"$")
	}
	if recv := fn.Signature.Recv(); recv != nil {
		t := recv.Type()
		if p, ok := t.(*types.Pointer); ok {
			t = p.Elem()
		}
		if n, ok := t.(*types.Named); ok {
			return pkgQual(n.Obj().Pkg()) + "." + n.Obj().Name() + "." + fn.Name()
		}
	}
	if fn.Pkg != nil {
		return pkgQual(fn.Pkg.Pkg) + "." + fn.Name()
	}
	return fn.String()
}

func (e *Exec) propsFor(fr *frame, kind string) []string {
	sp := fr.spec
	if sp == nil {
		sp = e.topSpec
	}
	if sp == nil {
		return nil
	}
	if kind == "safety" {
		return sp.SafetyProps
	}
	return sp.Props
}

// boundedHeader (bounded fallback mode): the contract's invariants that can still be evaluated on the
// current code are asserted as facts at every visit of the loop header within the bound (nothing is assumed).
func (e *Exec) boundedHeader(fr *frame, li *loopInfo, st *State, fromInside bool) {
	if li.spec == nil {
		return
	}
	name := fmt.Sprintf("%s/loop%d", fnName(fr.fn), li.ordinal)
	if n, ok := pinnedLoops[fnName(fr.fn)]; !ok || n != len(fr.loops) {
		e.notes = appendUnique(e.notes, fmt.Sprintf("%s: the function has %d loops, %d when its loop clauses were written: they are not used", fnName(fr.fn), len(fr.loops), n))
		return
	}
	vars := e.loopVars(fr, li, st)
	for _, inv := range li.spec.Invariants {
		invProps := inv.Props
		for _, sp2 := range e.propsFor(fr, "safety") {
			if !hasPropExact(invProps, sp2) {
				invProps = append(append([]string{}, invProps...), sp2)
			}
		}
		g, err := e.evalSpecBool(inv.Expr, &specEnv{goal: true, into: st, st: st, old: e.entry, vars: vars, oldVars: e.entryVars, fr: fr, pkg: pkgOf(fr.fn)})
		if err != nil {
			e.notes = appendUnique(e.notes, fmt.Sprintf("%s: invariant %s cannot be evaluated on the current code (%v): not used", name, inv.Label, err))
			continue
		}
		e.oblige(st, fmt.Sprintf("%s/inv-bounded:%s", name, inv.Label), invProps, g, "")
	}
	// `loop k increases`: compared between consecutive visits of the header on this path
	if li.spec.Increases != nil {
		m, err := e.evalSpec(li.spec.Increases, &specEnv{into: st, st: st, old: e.entry, vars: vars, oldVars: e.entryVars, fr: fr, pkg: pkgOf(fr.fn)})
		if err != nil {
			e.notes = appendUnique(e.notes, fmt.Sprintf("%s: increases: %v", name, err))
			e.oblige(st, name+"/progress", e.propsFor(fr, "safety"), BoolLit(false), fmt.Sprintf("the progress expression of the contract cannot be evaluated on the current code: %v", err))
			return
		}
		if lc := st.inLoop[li.header]; fromInside && lc != nil && lc.progress != nil {
			e.oblige(st, name+"/progress", e.propsFor(fr, "safety"), Gt(m.L[0], *lc.progress), "the expression named by `increases` is strictly greater at every revisit of the loop header: every iteration advances")
		}
		mm := e.ctx.def("progress", m.L[0])
		st.inLoop[li.header] = &loopCtx{progress: &mm}
	}
}

// loopHeader implements the invariant cut.
func (e *Exec) loopHeader(fr *frame, li *loopInfo, b, pred *ssa.BasicBlock, st *State) {
	name := fmt.Sprintf("%s/loop%d", fnName(fr.fn), li.ordinal)
	if li.spec == nil {
		// a loop the contract does not know: cut it with the trivial invariant (everything it writes is
		// havocked); obligations that needed more will fail and name the function
		e.notes = appendUnique(e.notes, fmt.Sprintf("%s: loop %d has no invariant in the contract; cut with the trivial invariant", fnName(fr.fn), li.ordinal))
		li.spec = &LoopSpec{}
	}
	fromInside := pred != nil && li.body[pred]
	if fromInside {
		e.terminationStep(fr, li, b, pred, st)
	}
	// bind phis to incoming values for evaluating the invariant
	e.evalPhis(b, pred, st)
	// inferred counter bounds for bottom-tested counting loops (e.g. range-over-int): checked like
	// written invariants, so that such a loop needs no different contract than its top-tested form
	autoBounds := e.autoBounds(li, b)
	for k, ab := range autoBounds {
		kind := "inv-entry"
		if fromInside {
			kind = "inv-preserved"
		}
		if g, ok := ab(st); ok {
			e.oblige(st, fmt.Sprintf("%s/%s:auto-bound%d", name, kind, k+1), e.propsFor(fr, "safety"), g, "inferred counter bound")
		}
	}
	vars := e.loopVars(fr, li, st)
	for _, inv := range li.spec.Invariants {
		kind := "inv-entry"
		if fromInside {
			kind = "inv-preserved"
		}
		// the panic-freedom obligations inside the loop are proved under the invariants: they serve the safety properties too
		invProps := inv.Props
		for _, sp2 := range e.propsFor(fr, "safety") {
			if !hasPropExact(invProps, sp2) {
				invProps = append(append([]string{}, invProps...), sp2)
			}
		}
		g, err := e.evalSpecBool(inv.Expr, &specEnv{goal: true, into: st, st: st, old: e.entry, vars: vars, oldVars: e.entryVars, fr: fr, pkg: pkgOf(fr.fn)})
		if err != nil {
			// the clause no longer fits the code (e.g. it names a local that is gone): the obligation cannot be discharged
			e.notes = appendUnique(e.notes, fmt.Sprintf("%s: invariant %s: %v", name, inv.Label, err))
			e.oblige(st, fmt.Sprintf("%s/%s:%s", name, kind, inv.Label), invProps, BoolLit(false), fmt.Sprintf("contract clause cannot be evaluated on the current code: %v", err))
			continue
		}
		e.oblige(st, fmt.Sprintf("%s/%s:%s", name, kind, inv.Label), invProps, g, "")
	}
	if fromInside {
		// termination measure
		if li.spec.Decreases != nil {
			if lc := st.inLoop[b]; lc != nil && lc.measure != nil {
				m, err := e.evalSpec(li.spec.Decreases, &specEnv{into: st, st: st, old: e.entry, vars: vars, oldVars: e.entryVars, fr: fr, pkg: pkgOf(fr.fn)})
				if err == nil {
					e.oblige(st, name+"/decreases", e.propsFor(fr, "safety"), And(Lt(m.L[0], *lc.measure), Ge(*lc.measure, IntLit(0))), "termination measure decreases and is bounded below")
				} else {
					e.notes = appendUnique(e.notes, fmt.Sprintf("%s: decreases: %v", name, err))
					e.oblige(st, name+"/decreases", e.propsFor(fr, "safety"), BoolLit(false), fmt.Sprintf("the termination measure of the contract cannot be evaluated on the current code: %v", err))
				}
			}
		}
		if li.spec.Increases != nil {
			if lc := st.inLoop[b]; lc != nil && lc.progress != nil {
				m, err := e.evalSpec(li.spec.Increases, &specEnv{into: st, st: st, old: e.entry, vars: vars, oldVars: e.entryVars, fr: fr, pkg: pkgOf(fr.fn)})
				if err == nil {
					e.oblige(st, name+"/progress", e.propsFor(fr, "safety"), Gt(m.L[0], *lc.progress), "the expression named by `increases` is strictly greater at every back edge than at the loop header: every iteration advances")
				} else {
					e.notes = appendUnique(e.notes, fmt.Sprintf("%s: increases: %v", name, err))
					e.oblige(st, name+"/progress", e.propsFor(fr, "safety"), BoolLit(false), fmt.Sprintf("the progress expression of the contract cannot be evaluated on the current code: %v", err))
				}
			}
		}
		if !fr.inline && fr.spec != nil {
			e.effectsDeclared(st, fnName(fr.fn), fr.spec)
			cv := e.oblige(st, name+"/cover:back-edge", e.propsFor(fr, "safety"), BoolLit(true), "some path through the loop body is feasible under the invariants")
			cv.Cover = true
		}
		return // path ends at the back edge
	}
	// havoc: loop-carried phis and everything the loop may write
	e.npaths++
	hst := st.clone()
	for _, in := range b.Instrs {
		phi, ok := in.(*ssa.Phi)
		if !ok {
			break
		}
		nv := e.freshSV("phi."+phi.Comment, phi.Type())
		e.wfAssume(hst, nv)
		hst.env[phi] = nv
	}
	ws := e.writeSet(fr, li)
	type hv struct {
		name string
		t    Term
	}
	var loopHavocked []hv
	loopGen0 := e.ctx.n + 1
	for a := range ws.locals {
		if cur, ok := hst.locals[a]; ok {
			nv := e.freshSV("local."+a.Comment, a.Type().(*types.Pointer).Elem())
			e.wfAssume(hst, nv)
			_ = cur
			hst.locals[a] = nv.L
		}
	}
	for _, pw := range ws.points {
		bv, ok := hst.env[pw.base]
		if pw.arr {
			if !ok || len(bv.L) != 4 {
				ws.classes[pw.cls] = true
				continue
			}
			for hs, srt := range e.ctx.heapSort {
				if strings.HasPrefix(hs, pw.cls) && strings.HasPrefix(string(srt), "(Array Int (Array Int ") {
					cur := e.heapGet(hst, hs, srt)
					row := e.ctx.fresh("havoc."+hs, elemSort(srt))
					loopHavocked = append(loopHavocked, hv{hs, row})
					hst.heap[hs] = e.ctx.def("h", Store(cur, bv.L[0], row))
					hst.written[hs] = true
				}
			}
			continue
		}
		if !ok || len(bv.L) != 1 {
			ws.classes[pw.cls] = true
			continue
		}
		for hs, srt := range e.ctx.heapSort {
			if strings.HasPrefix(hs, pw.cls) {
				cur := e.heapGet(hst, hs, srt)
				cell := e.ctx.fresh("havoc."+hs, elemSort(srt))
				loopHavocked = append(loopHavocked, hv{hs, cell})
				hst.heap[hs] = e.ctx.def("h", Store(cur, bv.L[0], cell))
				hst.written[hs] = true
			}
		}
	}
	// classes where the loop only initialises objects it allocates: what existed before the loop is unchanged
	allocPreLoop := hst.alloc
	var framedCls []string
	for cls := range ws.freshOnly {
		covered := false
		for c := range ws.classes {
			if strings.HasPrefix(cls, c) || strings.HasPrefix(c, cls) {
				covered = true
			}
		}
		if covered || strings.HasPrefix(cls, "G:") {
			continue
		}
		framedCls = append(framedCls, cls)
		for hs, srt := range e.ctx.heapSort {
			if strings.HasPrefix(hs, cls) && strings.HasPrefix(string(srt), "(Array Int ") {
				cur := e.heapGet(hst, hs, srt)
				nw := e.ctx.fresh("fresh."+hs, srt)
				loopHavocked = append(loopHavocked, hv{hs, nw})
				hst.heap[hs] = e.ctx.def("framed", Mix(cur, nw, allocPreLoop))
			}
		}
	}
	if len(framedCls) > 0 {
		sort.Strings(framedCls)
		e.markFrame(hst, allocPreLoop, framedCls...)
	}
	for name := range ws.classes {
		// havoc all heap symbols of this class prefix
		for hs, srt := range e.ctx.heapSort {
			if strings.HasPrefix(hs, name) {
				hst.heap[hs] = e.ctx.fresh("havoc."+hs, srt)
				loopHavocked = append(loopHavocked, hv{hs, hst.heap[hs]})
			}
		}
		e.markHavoc(hst, name)
	}
	// range-over-map loops: the visited set is loop state; it stays inside the map's domain
	for blk := range li.body {
		for _, in := range blk.Instrs {
			nx, ok := in.(*ssa.Next)
			if !ok || nx.IsString {
				continue
			}
			rng, ok := nx.Iter.(*ssa.Range)
			if !ok || li.body[rng.Block()] {
				continue
			}
			mt, ok := rng.X.Type().Underlying().(*types.Map)
			if !ok {
				continue
			}
			ks := flatten(mt.Key())[0].Sort
			vis := e.ctx.fresh("visited", ArrSort(ks, SBool))
			hst.ghost["visited:"+rng.Name()] = vis
			if mv, ok := hst.env[rng]; ok {
				dom := e.mapDom(hst, mt, mv.L[0])
				hst.pc = append(hst.pc, Term{fmt.Sprintf("(forall ((k!v %s)) (=> (select %s k!v) (and (not (= %s 0)) (select %s k!v))))", ks, vis.S, mv.L[0].S, dom.S), SBool})
			}
		}
	}
	if ws.alloc {
		na := e.ctx.fresh("alloc", SInt)
		hst.pc = append(hst.pc, Ge(na, hst.alloc))
		hst.alloc = na
	}
	for _, hv := range loopHavocked {
		e.ctx.closed(hv.name, hv.t, hst.alloc)
	}
	for i := range hst.havocPref {
		if _, ok := e.ctx.genAlloc[hst.havocPref[i].gen]; ok && hst.havocPref[i].gen >= loopGen0 {
			e.ctx.genAlloc[hst.havocPref[i].gen] = hst.alloc
		}
	}
	for _, ab := range autoBounds {
		if g, ok := ab(hst); ok {
			hst.pc = append(hst.pc, g)
		}
	}
	vars = e.loopVars(fr, li, hst)
	for _, inv := range li.spec.Invariants {
		g, err := e.evalSpecBool(inv.Expr, &specEnv{into: hst, st: hst, old: e.entry, vars: vars, oldVars: e.entryVars, fr: fr, pkg: pkgOf(fr.fn)})
		if err == nil {
			hst.pc = append(hst.pc, g)
		}
	}
	_ = intPhiFallback
	lc := &loopCtx{}
	if li.spec.Decreases != nil {
		m, err := e.evalSpec(li.spec.Decreases, &specEnv{into: hst, st: hst, old: e.entry, vars: vars, oldVars: e.entryVars, fr: fr, pkg: pkgOf(fr.fn)})
		if err == nil {
			mm := e.ctx.def("measure", m.L[0])
			lc.measure = &mm
		}
	}
	if li.spec.Increases != nil {
		m, err := e.evalSpec(li.spec.Increases, &specEnv{into: hst, st: hst, old: e.entry, vars: vars, oldVars: e.entryVars, fr: fr, pkg: pkgOf(fr.fn)})
		if err == nil {
			mm := e.ctx.def("progress", m.L[0])
			lc.progress = &mm
		} else {
			e.notes = appendUnique(e.notes, fmt.Sprintf("%s: increases: %v", fnName(fr.fn), err))
			e.oblige(hst, fmt.Sprintf("%s/loop%d/progress", fnName(fr.fn), li.ordinal), e.propsFor(fr, "safety"), BoolLit(false), fmt.Sprintf("the progress expression of the contract cannot be evaluated on the current code: %v", err))
		}
	}
	hst.inLoop[b] = lc
	e.execInstrs(fr, b, firstNonPhi(b), hst)
}

type pointWrite struct {
	base ssa.Value
	cls  string // heap symbol prefix (class + field path)
	arr  bool   // base is a slice: the write goes into its backing array (all cells of that array may change)
}

// autoTermination: a loop whose header ends in `if x < y` (or <=, >, >=) where one side is an integer phi of
// the header and the other side does not change while the loop runs (defined outside the loop, a constant, or
// a side-effect free accessor / len of such values) terminates if the phi moves strictly towards the bound
// on every back edge. Returns the phi and the direction (+1: must increase, -1: must decrease).
func (e *Exec) autoTermination(li *loopInfo, h *ssa.BasicBlock) (*ssa.Phi, int, bool) {
	if len(h.Instrs) == 0 {
		return nil, 0, false
	}
	ifi, ok := h.Instrs[len(h.Instrs)-1].(*ssa.If)
	if !ok {
		return nil, 0, false
	}
	bo, ok := ifi.Cond.(*ssa.BinOp)
	if !ok {
		return nil, 0, false
	}
	// the true branch must stay in the loop, the false branch leave it (or the reverse, with the comparison negated)
	stay := li.body[h.Succs[0]] && !li.body[h.Succs[1]]
	if !stay {
		return nil, 0, false
	}
	var invariant func(v ssa.Value, depth int) bool
	invariant = func(v ssa.Value, depth int) bool {
		switch x := v.(type) {
		case *ssa.Const, *ssa.Parameter, *ssa.FreeVar, *ssa.Global:
			return true
		case ssa.Instruction:
			if !li.body[x.Block()] {
				return true
			}
			if depth > 3 {
				return false
			}
			if c, ok := x.(*ssa.Call); ok {
				cm := c.Common()
				if b, ok := cm.Value.(*ssa.Builtin); ok && (b.Name() == "len" || b.Name() == "cap") {
					// len of a value the loop does not reassign; a slice that is appended to is a phi or reloaded, not invariant
					return invariant(cm.Args[0], depth+1)
				}
				var fobj *types.Func
				if cm.IsInvoke() {
					fobj = cm.Method
				} else if cal := cm.StaticCallee(); cal != nil {
					fobj, _ = cal.Object().(*types.Func)
				}
				if fobj == nil || fobj.Pkg() == nil || !pureAccessorPkgs[fobj.Pkg().Path()] {
					return false
				}
				if cm.IsInvoke() && !invariant(cm.Value, depth+1) {
					return false
				}
				for _, a := range cm.Args {
					if !invariant(a, depth+1) {
						return false
					}
				}
				return true
			}
			return false
		}
		return false
	}
	isPhi := func(v ssa.Value) *ssa.Phi {
		if p, ok := v.(*ssa.Phi); ok && p.Block() == h {
			if bt, ok := p.Type().Underlying().(*types.Basic); ok && bt.Info()&types.IsInteger != 0 {
				return p
			}
		}
		return nil
	}
	// both sides are counters of the loop (for i, j := 0, n-1; i < j; i, j = i+1, j-1): handled by the caller
	if px, py := isPhi(bo.X), isPhi(bo.Y); px != nil && py != nil {
		return nil, 0, false
	}
	switch bo.Op {
	case token.LSS, token.LEQ:
		if p := isPhi(bo.X); p != nil && invariant(bo.Y, 0) {
			return p, +1, true
		}
		if p := isPhi(bo.Y); p != nil && invariant(bo.X, 0) {
			return p, -1, true
		}
	case token.GTR, token.GEQ:
		if p := isPhi(bo.X); p != nil && invariant(bo.Y, 0) {
			return p, -1, true
		}
		if p := isPhi(bo.Y); p != nil && invariant(bo.X, 0) {
			return p, +1, true
		}
	}
	return nil, 0, false
}

func isRangeLoop(li *loopInfo) bool {
	for _, in := range li.header.Instrs {
		if phi, ok := in.(*ssa.Phi); ok && phi.Comment == "rangeindex" {
			return true
		}
	}
	for _, in := range li.header.Instrs {
		if _, ok := in.(*ssa.Next); ok {
			return true
		}
	}
	return false
}

// twoCounterStep: loop condition `x < y` (or <=, >, >=) between two integer phis of the header: the obligation
// that their distance shrinks on this back edge.
func (e *Exec) twoCounterStep(li *loopInfo, h, pred *ssa.BasicBlock, st *State) (Term, bool) {
	if len(h.Instrs) == 0 {
		return Term{}, false
	}
	ifi, ok := h.Instrs[len(h.Instrs)-1].(*ssa.If)
	if !ok || !(li.body[h.Succs[0]] && !li.body[h.Succs[1]]) {
		return Term{}, false
	}
	bo, ok := ifi.Cond.(*ssa.BinOp)
	if !ok {
		return Term{}, false
	}
	px, okx := bo.X.(*ssa.Phi)
	py, oky := bo.Y.(*ssa.Phi)
	if !okx || !oky || px.Block() != h || py.Block() != h {
		return Term{}, false
	}
	idx := -1
	for i, p := range h.Preds {
		if p == pred {
			idx = i
		}
	}
	ox, ok1 := st.env[px]
	oy, ok2 := st.env[py]
	if idx < 0 || !ok1 || !ok2 || len(ox.L) != 1 || len(oy.L) != 1 {
		return Term{}, false
	}
	nx, ny := e.val(st, px.Edges[idx]), e.val(st, py.Edges[idx])
	if len(nx.L) != 1 || len(ny.L) != 1 {
		return Term{}, false
	}
	switch bo.Op {
	case token.LSS, token.LEQ:
		return Lt(app(SInt, "-", ny.L[0], nx.L[0]), app(SInt, "-", oy.L[0], ox.L[0])), true
	case token.GTR, token.GEQ:
		return Lt(app(SInt, "-", nx.L[0], ny.L[0]), app(SInt, "-", ox.L[0], oy.L[0])), true
	}
	return Term{}, false
}

// terminationStep: on a back edge into h, the obligation that the counter found by autoTermination moves
// towards its bound (called before the phis are re-bound: st.env still holds the values of the iteration
// that just ended).
func (e *Exec) terminationStep(fr *frame, li *loopInfo, h, pred *ssa.BasicBlock, st *State) {
	if li.spec != nil && li.spec.Decreases != nil {
		return
	}
	if li.spec != nil && li.spec.AssumeTerm != "" {
		if n, okp := pinnedLoops[fnName(fr.fn)]; (okp && n == len(fr.loops)) || e.bounded == 0 {
			return // argued in the contract (listed as an assumption)
		}
	}
	if isRangeLoop(li) {
		return // a range loop visits each element once
	}
	if g, ok := e.twoCounterStep(li, h, pred, st); ok {
		e.oblige(st, fmt.Sprintf("%s/loop%d/terminates", fnName(fr.fn), li.ordinal), e.propsFor(fr, "safety"), g,
			"the distance between the two counters of the loop condition shrinks on every iteration (inferred termination argument)")
		return
	}
	phi, dir, ok := e.autoTermination(li, h)
	if !ok {
		e.oblige(st, fmt.Sprintf("%s/loop%d/terminates", fnName(fr.fn), li.ordinal), e.propsFor(fr, "safety"), BoolLit(false),
			"no termination argument for this loop: it is not a range loop, its condition is not a counter compared with a bound the loop leaves unchanged, and the contract gives no measure (`loop k decreases`) for it; "+e.ld.pos(h.Instrs[0].Pos()))
		return
	}
	old, ok := st.env[phi]
	if !ok || len(old.L) != 1 {
		return
	}
	idx := -1
	for i, p := range h.Preds {
		if p == pred {
			idx = i
		}
	}
	if idx < 0 {
		return
	}
	nv := e.val(st, phi.Edges[idx])
	if len(nv.L) != 1 {
		return
	}
	goal := Gt(nv.L[0], old.L[0])
	if dir < 0 {
		goal = Lt(nv.L[0], old.L[0])
	}
	e.oblige(st, fmt.Sprintf("%s/loop%d/terminates", fnName(fr.fn), li.ordinal), e.propsFor(fr, "safety"), goal,
		"the loop counter moves strictly towards the bound of the loop condition on every iteration (inferred termination argument)")
}

// autoBounds recognises a counting phi x of header h whose entry edge and back edge are both taken
// only when `x' < N` holds for the incoming value x' (N defined outside the loop): then x < N at
// the header. With a constant non-negative start and a positive constant step also start <= x.
func (e *Exec) autoBounds(li *loopInfo, h *ssa.BasicBlock) []func(st *State) (Term, bool) {
	var out []func(st *State) (Term, bool)
	if len(h.Preds) != 2 {
		return out
	}
	guardOf := func(pred *ssa.BasicBlock) (*ssa.BinOp, bool) {
		if len(pred.Instrs) == 0 {
			return nil, false
		}
		ifi, ok := pred.Instrs[len(pred.Instrs)-1].(*ssa.If)
		if !ok || pred.Succs[0] != h {
			return nil, false
		}
		bo, ok := ifi.Cond.(*ssa.BinOp)
		if !ok || bo.Op != token.LSS {
			return nil, false
		}
		return bo, true
	}
	for _, in := range h.Instrs {
		phi, ok := in.(*ssa.Phi)
		if !ok {
			break
		}
		if bt, ok := phi.Type().Underlying().(*types.Basic); !ok || bt.Info()&types.IsInteger == 0 {
			continue
		}
		g0, ok0 := guardOf(h.Preds[0])
		g1, ok1 := guardOf(h.Preds[1])
		if !ok0 || !ok1 || !sameSSA(g0.Y, g1.Y) || !sameSSA(g0.X, phi.Edges[0]) || !sameSSA(g1.X, phi.Edges[1]) {
			continue
		}
		if yi, ok := g0.Y.(ssa.Instruction); ok && li.body[yi.Block()] {
			continue
		}
		p, bound := phi, g0.Y
		out = append(out, func(st *State) (Term, bool) {
			pv, ok1 := st.env[p]
			var bv SV
			ok2 := true
			if c, isC := bound.(*ssa.Const); isC {
				bv = e.constVal(c)
			} else {
				bv, ok2 = st.env[bound]
			}
			if !ok1 || !ok2 || len(pv.L) != 1 || len(bv.L) != 1 {
				return Term{}, false
			}
			return Lt(pv.L[0], bv.L[0]), true
		})
		// lower bound
		for k := 0; k < 2; k++ {
			c0, isC := phi.Edges[k].(*ssa.Const)
			step, isB := phi.Edges[1-k].(*ssa.BinOp)
			if !isC || !isB || step.Op != token.ADD || step.X != phi {
				continue
			}
			sc, isSC := step.Y.(*ssa.Const)
			if !isSC || c0.Value == nil || sc.Value == nil {
				continue
			}
			lo, ok := litInt(e.constVal(c0).L[0])
			inc, ok2 := litInt(e.constVal(sc).L[0])
			if !ok || !ok2 || inc <= 0 {
				continue
			}
			out = append(out, func(st *State) (Term, bool) {
				pv, ok := st.env[p]
				if !ok || len(pv.L) != 1 {
					return Term{}, false
				}
				return Ge(pv.L[0], IntLit(lo)), true
			})
		}
	}
	return out
}

func sameSSA(a, b ssa.Value) bool {
	if a == b {
		return true
	}
	ca, ok1 := a.(*ssa.Const)
	cb, ok2 := b.(*ssa.Const)
	if ok1 && ok2 && ca.Value != nil && cb.Value != nil {
		return ca.Value.ExactString() == cb.Value.ExactString() && types.Identical(ca.Type(), cb.Type())
	}
	return false
}

type writeSet struct {
	freshOnly map[string]bool // classes in which only objects allocated by the code itself are initialised
	points  []pointWrite
	broad   map[string]bool // class prefixes written other than through point writes
	locals  map[*ssa.Alloc]bool
	classes map[string]bool
	alloc   bool
	all     bool
	seen    map[*ssa.Function]bool // module callees already scanned (recursion)
}


// writeSet computes (an over-approximation of) the heap classes a loop writes.
func (e *Exec) writeSet(fr *frame, li *loopInfo) writeSet {
	ws := writeSet{classes: map[string]bool{}, locals: map[*ssa.Alloc]bool{}, broad: map[string]bool{}, freshOnly: map[string]bool{}}
	for b := range li.body {
		for _, in := range b.Instrs {
			if st, ok := in.(*ssa.Store); ok {
				if base, cls, ok := pointBase(st.Addr); ok && !li.body[base.(ssa.Instruction).Block()] {
					ws.points = append(ws.points, pointWrite{base: base, cls: cls})
					continue
				}
				if base, cls, ok := arrayBase(st.Addr); ok && !li.body[base.(ssa.Instruction).Block()] {
					ws.points = append(ws.points, pointWrite{base: base, cls: cls, arr: true})
					continue
				}
			}
			before := len(ws.classes)
			_ = before
			tmp := writeSet{classes: map[string]bool{}, locals: ws.locals, broad: map[string]bool{}, freshOnly: map[string]bool{}}
			e.instrWrites(in, &tmp)
			for c := range tmp.classes {
				ws.classes[c] = true
			}
			for c := range tmp.freshOnly {
				ws.freshOnly[c] = true
			}
			if tmp.alloc {
				ws.alloc = true
			}
		}
	}
	// a point write is only useful if nothing else in the loop writes the same class
	var keep []pointWrite
	for _, pw := range ws.points {
		covered := false
		for c := range ws.classes {
			if strings.HasPrefix(pw.cls, c) || strings.HasPrefix(c, pw.cls) {
				covered = true
			}
		}
		if !covered {
			keep = append(keep, pw)
		}
	}
	ws.points = keep
	return ws
}

// staticWrites over-approximates the heap classes a function (with everything it calls) may write,
// including the initialisation of objects it allocates. Memoised; recursion is cut.
func (e *Exec) staticWrites(fn *ssa.Function) map[string]bool {
	if e.swMemo == nil {
		e.swMemo = map[*ssa.Function]map[string]bool{}
	}
	if m, ok := e.swMemo[fn]; ok {
		return m
	}
	out := map[string]bool{}
	e.swMemo[fn] = out // cuts recursion
	ws := writeSet{classes: map[string]bool{}, locals: map[*ssa.Alloc]bool{}, broad: map[string]bool{}}
	for _, b := range fn.Blocks {
		for _, in := range b.Instrs {
			e.instrWrites(in, &ws)
		}
	}
	for c := range ws.classes {
		out[c] = true
	}
	return out
}

func (e *Exec) instrWrites(in ssa.Instruction, ws *writeSet) {
	switch x := in.(type) {
	case *ssa.Store:
		if root := localRoot(x.Addr); root != nil {
			ws.locals[root] = true
			return
		}
		e.addrClasses(x.Addr, ws)
	case *ssa.MapUpdate:
		mt := x.Map.Type().Underlying().(*types.Map)
		ws.classes["M:"+typeKey(mt.Key())+":"+typeKey(mt.Elem())+"#"] = true
	case *ssa.Alloc, *ssa.MakeMap, *ssa.MakeSlice, *ssa.MakeInterface:
		if a, ok := in.(*ssa.Alloc); ok && !a.Heap {
			if _, isArr := a.Type().(*types.Pointer).Elem().Underlying().(*types.Array); !isArr {
				return
			}
		}
		ws.alloc = true
		if a, ok := in.(*ssa.Alloc); ok {
			et := a.Type().(*types.Pointer).Elem()
			if at, ok := et.Underlying().(*types.Array); ok {
				ws.classes["A:"+typeKey(at.Elem())+"#"] = true
			} else {
				ws.classes["H:"+typeKey(et)+"#"] = true
			}
		}
		if m, ok := in.(*ssa.MakeMap); ok {
			mt := m.Type().Underlying().(*types.Map)
			ws.classes["M:"+typeKey(mt.Key())+":"+typeKey(mt.Elem())+"#"] = true
		}
		if m, ok := in.(*ssa.MakeSlice); ok {
			ws.classes["A:"+typeKey(m.Type().Underlying().(*types.Slice).Elem())+"#"] = true
		}
	case ssa.CallInstruction:
		c := x.Common()
		ws.alloc = true
		if b, ok := c.Value.(*ssa.Builtin); ok {
			if b.Name() == "append" {
				ws.classes["A:"+typeKey(c.Args[0].Type().Underlying().(*types.Slice).Elem())+"#"] = true
			}
			if b.Name() == "delete" {
				if mt, ok := c.Args[0].Type().Underlying().(*types.Map); ok {
					ws.classes["M:"+typeKey(mt.Key())+":"+typeKey(mt.Elem())+"#"] = true
				}
			}
			return
		}
		callee := c.StaticCallee()
		if callee != nil {
			if sp := e.specs.Lookup(fnName(callee)); sp != nil {
				for _, m := range sp.Modifies {
					ws.classes[m] = true
				}
				// classes in which the callee may initialise objects it allocates
				for m := range e.staticWrites(callee) {
					listed := false
					for _, mm := range sp.Modifies {
						if strings.HasPrefix(m, mm) || strings.HasPrefix(mm, m) {
							listed = true
						}
					}
					if !listed && ws.freshOnly != nil {
						ws.freshOnly[m] = true
					} else {
						ws.classes[m] = true
					}
				}
				return
			}
			if e.ld.isModuleFn(callee) && len(callee.Blocks) > 0 {
				if ws.seen == nil {
					ws.seen = map[*ssa.Function]bool{}
				}
				if ws.seen[callee] {
					return
				}
				ws.seen[callee] = true
				for _, b := range callee.Blocks {
					for _, in2 := range b.Instrs {
						e.instrWrites(in2, ws)
					}
				}
				return
			}
		}
		// externals: declared effects
		for _, m := range e.externModifies(c) {
			ws.classes[m] = true
		}
		if callee != nil && (calleeKey(callee) == "strings.Split" || calleeKey(callee) == "strings.SplitN") {
			if ws.freshOnly != nil {
				ws.freshOnly["A:string#"] = true
			} else {
				ws.classes["A:string#"] = true
			}
		}
	}
}

func (e *Exec) addrClasses(a ssa.Value, ws *writeSet) {
	switch x := a.(type) {
	case *ssa.FieldAddr:
		st := x.X.Type().Underlying().(*types.Pointer).Elem()
		root, path := e.rootOf(x.X)
		_ = root
		f := st.Underlying().(*types.Struct).Field(x.Field)
		if path != "" {
			ws.classes[path+"."+f.Name()] = true
			return
		}
		ws.classes["H:"+typeKey(st)+"#."+f.Name()] = true
	case *ssa.IndexAddr:
		switch t := x.X.Type().Underlying().(type) {
		case *types.Slice:
			ws.classes["A:"+typeKey(t.Elem())+"#"] = true
		case *types.Pointer:
			ws.classes["A:"+typeKey(t.Elem().Underlying().(*types.Array).Elem())+"#"] = true
		}
	case *ssa.Global:
		ws.classes["G:"+pkgQual(x.Pkg.Pkg)+"."+x.Name()+"#"] = true
	default:
		// pointer value: whole object
		if p, ok := a.Type().Underlying().(*types.Pointer); ok {
			ws.classes["H:"+typeKey(p.Elem())+"#"] = true
		}
	}
}

// pointBase: a store through p or &p.f... where p is an instruction-defined pointer value; returns p
// and the heap symbol prefix written.
func pointBase(addr ssa.Value) (ssa.Value, string, bool) {
	path := ""
	v := addr
	for {
		fa, ok := v.(*ssa.FieldAddr)
		if !ok {
			break
		}
		st := fa.X.Type().Underlying().(*types.Pointer).Elem()
		path = "." + st.Underlying().(*types.Struct).Field(fa.Field).Name() + path
		v = fa.X
	}
	if _, ok := v.(ssa.Instruction); !ok {
		return nil, "", false
	}
	if _, isAlloc := v.(*ssa.Alloc); !isAlloc {
		if _, isCall := v.(*ssa.Call); !isCall {
			return nil, "", false
		}
	}
	pt, ok := v.Type().Underlying().(*types.Pointer)
	if !ok {
		return nil, "", false
	}
	if _, isArr := pt.Elem().Underlying().(*types.Array); isArr {
		return nil, "", false
	}
	if localRoot(addr) != nil {
		return nil, "", false
	}
	return v, "H:" + typeKey(pt.Elem()) + "#" + path, true
}

// arrayBase: a store into an element (or a field of an element) of a slice that is an SSA value:
// returns the slice value and the heap symbol prefix of the element class.
func arrayBase(addr ssa.Value) (ssa.Value, string, bool) {
	path := ""
	v := addr
	for {
		fa, ok := v.(*ssa.FieldAddr)
		if !ok {
			break
		}
		st := fa.X.Type().Underlying().(*types.Pointer).Elem()
		path = "." + st.Underlying().(*types.Struct).Field(fa.Field).Name() + path
		v = fa.X
	}
	ia, ok := v.(*ssa.IndexAddr)
	if !ok {
		return nil, "", false
	}
	sl, ok := ia.X.Type().Underlying().(*types.Slice)
	if !ok {
		return nil, "", false
	}
	if _, ok := ia.X.(ssa.Instruction); !ok {
		return nil, "", false
	}
	switch ia.X.(type) {
	case *ssa.MakeSlice, *ssa.Call, *ssa.Slice:
	default:
		return nil, "", false
	}
	return ia.X, "A:" + typeKey(sl.Elem()) + "#" + path, true
}

// localRoot returns the non-escaping local an address is rooted at, if any.
func localRoot(v ssa.Value) *ssa.Alloc {
	for {
		switch x := v.(type) {
		case *ssa.FieldAddr:
			v = x.X
		case *ssa.Alloc:
			if _, isArr := x.Type().(*types.Pointer).Elem().Underlying().(*types.Array); !isArr && !x.Heap {
				return x
			}
			return nil
		default:
			return nil
		}
	}
}

// rootOf returns the heap-class prefix for nested FieldAddr chains.
func (e *Exec) rootOf(v ssa.Value) (ssa.Value, string) {
	if fa, ok := v.(*ssa.FieldAddr); ok {
		st := fa.X.Type().Underlying().(*types.Pointer).Elem()
		f := st.Underlying().(*types.Struct).Field(fa.Field)
		r, p := e.rootOf(fa.X)
		if p == "" {
			return r, "H:" + typeKey(st) + "#." + f.Name()
		}
		return r, p + "." + f.Name()
	}
	return v, ""
}

// loopVars resolves the names usable in invariants of loop li.
func (e *Exec) loopVars(fr *frame, li *loopInfo, st *State) map[string]SV {
	vars := e.scopeVars(fr, st, li)
	for _, in := range li.header.Instrs {
		phi, ok := in.(*ssa.Phi)
		if !ok {
			break
		}
		if sv, ok := st.env[phi]; ok {
			name := phi.Comment
			if name == "rangeindex" {
				name = "rangeIndex"
			}
			vars[name] = sv
		}
	}
	// enclosing loops: their range index / counter are visible as rangeIndex<k>, ix<k> (k = loop ordinal)
	for _, outer := range fr.loops {
		if outer == li || !outer.body[li.header] {
			continue
		}
		var ints []*ssa.Phi
		for _, in := range outer.header.Instrs {
			phi, ok := in.(*ssa.Phi)
			if !ok {
				break
			}
			sv, bound := st.env[phi]
			if !bound {
				continue
			}
			if phi.Comment == "rangeindex" {
				vars[fmt.Sprintf("rangeIndex%d", outer.ordinal)] = sv
			} else if b, ok := phi.Type().Underlying().(*types.Basic); ok && b.Info()&types.IsInteger != 0 {
				ints = append(ints, phi)
			}
		}
		if len(ints) == 1 {
			vars[fmt.Sprintf("ix%d", outer.ordinal)] = st.env[ints[0]]
		}
	}
	// the loop counter by role: if the header has exactly one integer phi that is not a range index, it is
	// also available as `ix`, so that contracts need not depend on its source name
	var intPhis []*ssa.Phi
	for _, in := range li.header.Instrs {
		phi, ok := in.(*ssa.Phi)
		if !ok {
			break
		}
		if b, ok := phi.Type().Underlying().(*types.Basic); ok && b.Info()&types.IsInteger != 0 && phi.Comment != "rangeindex" {
			intPhis = append(intPhis, phi)
		}
	}
	if len(intPhis) == 1 {
		if sv, ok := st.env[intPhis[0]]; ok {
			vars["ix"] = sv
		}
	}
	// range-over-map iterator state: `visited` is the set of keys already produced
	for blk := range li.body {
		for _, in := range blk.Instrs {
			if nx, ok := in.(*ssa.Next); ok {
				if rng, ok := nx.Iter.(*ssa.Range); ok && !li.body[rng.Block()] {
					if g, ok := st.ghost["visited:"+rng.Name()]; ok {
						vars["visited"] = SV{L: []Term{g}}
					}
				}
			}
		}
	}
	return vars
}

// scopeVars: parameters, free variables and debug-named locals bound on this path.
func (e *Exec) scopeVars(fr *frame, st *State, li *loopInfo) map[string]SV {
	vars := map[string]SV{}
	var dnames []string
	for name := range fr.names {
		dnames = append(dnames, name)
	}
	// address-taken variables ("&x": current content of the cell) override value references
	sort.Slice(dnames, func(i, j int) bool {
		ai, aj := strings.HasPrefix(dnames[i], "&"), strings.HasPrefix(dnames[j], "&")
		if ai != aj {
			return !ai
		}
		return dnames[i] < dnames[j]
	})
	for _, name := range dnames {
		refs := fr.names[name]
		v, ok := pickDebug(refs, st, li)
		if !ok {
			continue
		}
		if strings.HasPrefix(name, "&") {
			if sv, ok := st.env[v]; ok {
				if a := e.addrOf(st, sv, nil, "", nil); a != nil {
					vars[name[1:]] = e.load(st, a)
				}
			}
			continue
		}
		if sv, ok := st.env[v]; ok {
			vars[name] = sv
		}
	}
	// variables that live in memory (address taken, captured by closures): current content of the cell
	for _, b := range fr.fn.Blocks {
		for _, in := range b.Instrs {
			al, ok := in.(*ssa.Alloc)
			if !ok || al.Comment == "" || al.Comment == "complit" || al.Comment == "varargs" || al.Comment == "slicelit" {
				continue
			}
			if _, isArr := al.Type().(*types.Pointer).Elem().Underlying().(*types.Array); isArr {
				continue
			}
			if sv, ok := st.env[al]; ok {
				if a := e.addrOf(st, sv, nil, "", nil); a != nil {
					if a.Kind == ALocal {
						if _, ok := st.locals[al]; !ok {
							continue
						}
					}
					vars[al.Comment] = e.load(st, a)
				}
			}
		}
	}
	bindParams(fr.fn, func(i int, p *ssa.Parameter) (SV, bool) { sv, ok := st.env[p]; return sv, ok }, vars)
	for _, p := range fr.fn.FreeVars {
		if sv, ok := st.env[p]; ok {
			// free vars are pointers to the captured variable
			if a := e.addrOf(st, sv, nil, "", nil); a != nil {
				vars[p.Name()] = e.load(st, a)
			}
		}
	}
	return vars
}

// addrOf converts a pointer-typed SV to an address. If fr/instr are given a
// nil-dereference obligation is generated for plain references.
func (e *Exec) addrOf(st *State, p SV, fr *frame, what string, instr ssa.Instruction) *Addr {
	if p.Addr != nil {
		return p.Addr
	}
	pt, ok := p.T.Underlying().(*types.Pointer)
	if !ok || len(p.L) != 1 {
		return nil
	}
	if fr != nil {
		e.safety(fr, st, "nil-deref:"+what, Not(Eq(p.L[0], IntLit(0))), instr)
	}
	return &Addr{Kind: AObj, Class: typeKey(pt.Elem()), Ref: p.L[0], T: pt.Elem()}
}

func (e *Exec) safety(fr *frame, st *State, label string, goal Term, instr ssa.Instruction) {
	if goal.S == "true" {
		return
	}
	note := ""
	if instr != nil {
		note = e.ld.pos(instr.Pos())
	}
	e.oblige(st, fnName(fr.fn)+"/safe:"+label, e.propsFor(fr, "safety"), goal, note)
	// continue under the assumption that the operation did not panic
	st.pc = append(st.pc, goal)
}

func (e *Exec) execInstrs(fr *frame, b *ssa.BasicBlock, i int, st *State) {
	for ; i < len(b.Instrs); i++ {
		if st.aborted != "" {
			return
		}
		in := b.Instrs[i]
		switch x := in.(type) {
		case *ssa.DebugRef:
			continue
		case *ssa.If:
			c := e.val(st, x.Cond).L[0]
			if c.S == "true" {
				e.execBlock(fr, b.Succs[0], b, st)
				return
			}
			if c.S == "false" {
				e.execBlock(fr, b.Succs[1], b, st)
				return
			}
			e.npaths++
			st2 := st.clone()
			st.pc = append(st.pc, c)
			st.trace = append(st.trace, fmt.Sprintf("b%d:T", b.Index))
			e.execBlock(fr, b.Succs[0], b, st)
			st2.pc = append(st2.pc, Not(c))
			st2.trace = append(st2.trace, fmt.Sprintf("b%d:F", b.Index))
			e.execBlock(fr, b.Succs[1], b, st2)
			return
		case *ssa.Jump:
			e.execBlock(fr, b.Succs[0], b, st)
			return
		case *ssa.RunDefers:
			if len(st.defers) == 0 {
				continue
			}
			d := st.defers[len(st.defers)-1]
			st.defers = append([]*ssa.Defer(nil), st.defers[:len(st.defers)-1]...)
			idx := i
			e.call(fr, d, st, func(st2 *State, res SV) {
				// re-enter at the same RunDefers until the stack is empty
				e.execInstrs(fr, b, idx, st2)
			})
			return
		case *ssa.Return:
			var res []SV
			for _, r := range x.Results {
				res = append(res, e.val(st, r))
			}
			fr.ret(st, res)
			return
		case *ssa.Panic:
			v := e.val(st, x.X)
			if fr.pan != nil {
				fr.pan(st, v)
			}
			return
		case ssa.CallInstruction:
			if _, isGo := in.(*ssa.Go); isGo {
				e.forbidden(fr, st, in, "go")
				return
			}
			if d, isDefer := in.(*ssa.Defer); isDefer {
				if e.hooks != nil {
					e.forbidden(fr, st, in, "defer")
					return
				}
				// deferred call: runs at the function's exits (LIFO); its operands are SSA values
				st.defers = append(st.defers, d)
				continue
			}
			idx := i
			e.call(fr, x, st, func(st2 *State, res SV) {
				if st2.exited {
					if e.onExit != nil {
						e.onExit(st2)
					}
					return
				}
				if v, ok := in.(ssa.Value); ok {
					res.T = v.Type()
					st2.env[v] = res
				}
				e.execInstrs(fr, b, idx+1, st2)
			})
			return
		default:
			e.step(fr, in, st)
		}
	}
}

func (e *Exec) forbidden(fr *frame, st *State, in ssa.Instruction, what string) {
	if e.hooks != nil {
		e.hooks.OnForbidden(e, st, in, what)
		return
	}
	e.abort(st, "unsupported instruction: "+what+" at "+e.ld.pos(in.Pos()))
}

func (e *Exec) step(fr *frame, in ssa.Instruction, st *State) {
	switch x := in.(type) {
	case *ssa.Alloc:
		et := x.Type().(*types.Pointer).Elem()
		if _, isArr := et.Underlying().(*types.Array); !isArr && !x.Heap {
			if st.locals == nil {
				st.locals = map[*ssa.Alloc][]Term{}
			}
			st.locals[x] = zeroSV(et).L
			st.env[x] = SV{T: x.Type(), Addr: &Addr{Kind: ALocal, Local: x, T: et}}
			return
		}
		r := e.allocRef(st)
		if at, ok := et.Underlying().(*types.Array); ok {
			for _, l := range flatten(at.Elem()) {
				name := heapSym("A", typeKey(at.Elem()), l.Path)
				arr := e.heapGet(st, name, ArrSort(SInt, ArrSort(SInt, l.Sort)))
				e.heapSet(st, name, Store(arr, r, ZeroOf(ArrSort(SInt, l.Sort))))
			}
			st.env[x] = scalar(x.Type(), r)
			return
		}
		a := &Addr{Kind: AObj, Class: typeKey(et), Ref: r, T: et}
		e.store(st, a, zeroSV(et))
		if typeKey(et) == "strings.Builder" {
			// ghost content of a fresh builder
			name := heapSym("H", "strings.Builder", ".ghost")
			h := e.heapGet(st, name, ArrSort(SInt, SString))
			e.heapSet(st, name, Store(h, r, StrLit("")))
		}
		st.env[x] = scalar(x.Type(), r)
	case *ssa.FieldAddr:
		base := e.val(st, x.X)
		stt := x.X.Type().Underlying().(*types.Pointer).Elem()
		f := stt.Underlying().(*types.Struct).Field(x.Field)
		a := e.addrOf(st, base, fr, f.Name(), in)
		if a == nil {
			e.abort(st, "FieldAddr on unsupported base")
			return
		}
		na := *a
		na.Path = a.Path + "." + f.Name()
		na.T = f.Type()
		st.env[x] = SV{T: x.Type(), Addr: &na}
	case *ssa.Field:
		base := e.val(st, x.X)
		stt := x.X.Type().Underlying().(*types.Struct)
		lo, hi := fieldRange(stt, x.Field)
		st.env[x] = SV{T: x.Type(), L: base.L[lo:hi]}
	case *ssa.IndexAddr:
		base := e.val(st, x.X)
		idx := e.val(st, x.Index).L[0]
		switch t := x.X.Type().Underlying().(type) {
		case *types.Slice:
			e.safety(fr, st, "index:"+valName(x.X), And(Ge(idx, IntLit(0)), Lt(idx, base.L[2])), in)
			st.env[x] = SV{T: x.Type(), Addr: &Addr{Kind: AElem, Class: typeKey(t.Elem()), Ref: base.L[0], Idx: CellIdx(base.L[1], idx), T: t.Elem()}}
		case *types.Pointer:
			at := t.Elem().Underlying().(*types.Array)
			e.safety(fr, st, "index:"+valName(x.X), And(Ge(idx, IntLit(0)), Lt(idx, IntLit(at.Len()))), in)
			st.env[x] = SV{T: x.Type(), Addr: &Addr{Kind: AElem, Class: typeKey(at.Elem()), Ref: base.L[0], Idx: idx, T: at.Elem()}}
		default:
			e.abort(st, "IndexAddr on "+typeKey(x.X.Type()))
		}
	case *ssa.Index:
		base := e.val(st, x.X)
		idx := e.val(st, x.Index).L[0]
		if b, ok := x.X.Type().Underlying().(*types.Basic); ok && b.Info()&types.IsString != 0 {
			e.safety(fr, st, "index:"+valName(x.X), And(Ge(idx, IntLit(0)), Lt(idx, app(SInt, "str.len", base.L[0]))), in)
			st.env[x] = scalar(x.Type(), app(SInt, "str.to_code", app(SString, "str.at", base.L[0], idx)))
			return
		}
		e.abort(st, "Index on "+typeKey(x.X.Type()))
	case *ssa.Lookup:
		e.lookup(fr, x, st)
	case *ssa.UnOp:
		e.unop(fr, x, st)
	case *ssa.BinOp:
		a, b := e.val(st, x.X), e.val(st, x.Y)
		st.env[x] = e.binop(st, x.Op, a, b, x.Type(), in)
	case *ssa.Store:
		p := e.val(st, x.Addr)
		v := e.val(st, x.Val)
		a := e.addrOf(st, p, fr, valName(x.Addr), in)
		if a == nil {
			e.abort(st, "Store through unsupported pointer")
			return
		}
		if e.hooks != nil {
			e.hooks.OnStore(e, st, a, v, in)
		}
		e.store(st, a, v)
	case *ssa.MakeInterface:
		v := e.val(st, x.X)
		if len(v.L) == 1 && v.L[0].Sort == SInt && isRefType(x.X.Type()) {
			st.pc = append(st.pc, Implies(Not(Eq(v.L[0], IntLit(0))), Eq(e.dyn(v.L[0]), e.tagOf(x.X.Type()))))
			st.env[x] = SV{T: x.Type(), L: v.L, Fn: v.Fn}
			return
		}
		r := e.allocRef(st)
		st.pc = append(st.pc, Eq(e.dyn(r), e.tagOf(x.X.Type())))
		if len(v.L) == 1 {
			st.pc = append(st.pc, Eq(e.ctx.uf("unbox."+string(v.L[0].Sort), v.L[0].Sort, r), v.L[0]))
		}
		st.env[x] = scalar(x.Type(), r)
	case *ssa.ChangeInterface:
		v := e.val(st, x.X)
		v.T = x.Type()
		st.env[x] = v
	case *ssa.ChangeType:
		v := e.val(st, x.X)
		v.T = x.Type()
		st.env[x] = v
	case *ssa.Convert:
		v := e.val(st, x.X)
		from, to := flatten(x.X.Type()), flatten(x.Type())
		if len(from) == 1 && len(to) == 1 && from[0].Sort == to[0].Sort {
			v.T = x.Type()
			st.env[x] = v
			return
		}
		// string <-> []byte etc.: uninterpreted conversion
		var args []Term
		args = append(args, v.L...)
		res := e.freshSV("conv", x.Type())
		st.env[x] = res
		_ = args
	case *ssa.TypeAssert:
		e.typeAssert(fr, x, st)
	case *ssa.Extract:
		tup := e.val(st, x.Tuple)
		tt := x.Tuple.Type().(*types.Tuple)
		lo := 0
		for k := 0; k < x.Index; k++ {
			lo += len(flatten(tt.At(k).Type()))
		}
		hi := lo + len(flatten(tt.At(x.Index).Type()))
		if hi > len(tup.L) {
			e.abort(st, fmt.Sprintf("Extract out of range on %s", x.Tuple.Name()))
			return
		}
		st.env[x] = SV{T: x.Type(), L: tup.L[lo:hi]}
	case *ssa.MakeClosure:
		fn := x.Fn.(*ssa.Function)
		st.pc = append(st.pc, Not(Eq(e.fnId(fn), IntLit(0))))
		var binds []SV
		for _, b := range x.Bindings {
			binds = append(binds, e.val(st, b))
		}
		st.env[x] = SV{T: x.Type(), Fn: &FnVal{Fn: fn, Bindings: binds}, L: []Term{e.fnId(fn)}}
	case *ssa.MakeMap:
		mt := x.Type().Underlying().(*types.Map)
		r := e.allocRef(st)
		cls := "M:" + typeKey(mt.Key()) + ":" + typeKey(mt.Elem())
		ks := flatten(mt.Key())[0].Sort
		dn := cls + "#dom"
		dom := e.heapGet(st, dn, ArrSort(SInt, ArrSort(ks, SBool)))
		e.heapSet(st, dn, Store(dom, r, ConstArr(ArrSort(ks, SBool), BoolLit(false))))
		st.env[x] = scalar(x.Type(), r)
	case *ssa.MakeSlice:
		t := x.Type().Underlying().(*types.Slice)
		ln := e.val(st, x.Len).L[0]
		cp := e.val(st, x.Cap).L[0]
		e.safety(fr, st, "makeslice", And(Ge(ln, IntLit(0)), Le(ln, cp)), in)
		r := e.allocRef(st)
		for _, l := range flatten(t.Elem()) {
			name := heapSym("A", typeKey(t.Elem()), l.Path)
			arr := e.heapGet(st, name, ArrSort(SInt, ArrSort(SInt, l.Sort)))
			e.heapSet(st, name, Store(arr, r, ZeroOf(ArrSort(SInt, l.Sort))))
		}
		st.env[x] = SV{T: x.Type(), L: []Term{r, IntLit(0), ln, cp}}
	case *ssa.Slice:
		e.sliceOp(fr, x, st)
	case *ssa.MapUpdate:
		m := e.val(st, x.Map)
		k := e.val(st, x.Key)
		v := e.val(st, x.Value)
		mt := x.Map.Type().Underlying().(*types.Map)
		e.safety(fr, st, "nil-map:"+valName(x.Map), Not(Eq(m.L[0], IntLit(0))), in)
		e.mapStore(st, mt, m.L[0], k.L[0], v)
	case *ssa.Range:
		// iterator over a map: ghost visited set
		mt, ok := x.X.Type().Underlying().(*types.Map)
		if !ok {
			e.abort(st, "range over string")
			return
		}
		ks := flatten(mt.Key())[0].Sort
		m := e.val(st, x.X)
		vis := ConstArr(ArrSort(ks, SBool), BoolLit(false))
		st.ghost["visited:"+x.Name()] = vis
		st.env[x] = SV{T: x.Type(), L: []Term{m.L[0]}}
	case *ssa.Next:
		e.next(fr, x, st)
	case *ssa.RunDefers:
	case *ssa.Select, *ssa.Send:
		e.forbidden(fr, st, in, fmt.Sprintf("%T", in))
	default:
		e.abort(st, fmt.Sprintf("unsupported instruction %T: %s", in, in.String()))
	}
}

func valName(v ssa.Value) string {
	switch x := v.(type) {
	case *ssa.Parameter:
		return x.Name()
	case *ssa.FieldAddr:
		st := x.X.Type().Underlying().(*types.Pointer).Elem()
		return valName(x.X) + "." + st.Underlying().(*types.Struct).Field(x.Field).Name()
	case *ssa.Field:
		return valName(x.X) + "." + x.X.Type().Underlying().(*types.Struct).Field(x.Field).Name()
	case *ssa.UnOp:
		if x.Op == token.MUL {
			return valName(x.X)
		}
	case *ssa.Global:
		return x.Name()
	case *ssa.Phi:
		return x.Comment
	case *ssa.FreeVar:
		return x.Name()
	case *ssa.Call:
		if c := x.Call.StaticCallee(); c != nil {
			return c.Name() + "()"
		}
		if x.Call.IsInvoke() {
			return x.Call.Method.Name() + "()"
		}
	case *ssa.Extract:
		return valName(x.Tuple) + fmt.Sprintf("#%d", x.Index)
	case *ssa.Slice:
		return valName(x.X) + "[:]"
	case *ssa.Alloc:
		return x.Comment
	case *ssa.IndexAddr:
		return valName(x.X) + "[]"
	}
	return "_"
}

func (e *Exec) mapStore(st *State, mt *types.Map, m, k Term, v SV) {
	cls := "M:" + typeKey(mt.Key()) + ":" + typeKey(mt.Elem())
	ks := flatten(mt.Key())[0].Sort
	dn := cls + "#dom"
	dom := e.heapGet(st, dn, ArrSort(SInt, ArrSort(ks, SBool)))
	e.heapSet(st, dn, Store(dom, m, Store(Select(dom, m), k, BoolLit(true))))
	for i, l := range flatten(mt.Elem()) {
		vn := cls + "#val" + l.Path
		e.ctx.refLeaf[vn] = isRefLeaf(l)
		va := e.heapGet(st, vn, ArrSort(SInt, ArrSort(ks, l.Sort)))
		e.heapSet(st, vn, Store(va, m, Store(Select(va, m), k, v.L[i])))
	}
}

func (e *Exec) mapDom(st *State, mt *types.Map, m Term) Term {
	cls := "M:" + typeKey(mt.Key()) + ":" + typeKey(mt.Elem())
	ks := flatten(mt.Key())[0].Sort
	return Select(e.heapGet(st, cls+"#dom", ArrSort(SInt, ArrSort(ks, SBool))), m)
}

func (e *Exec) mapVal(st *State, mt *types.Map, m, k Term) SV {
	cls := "M:" + typeKey(mt.Key()) + ":" + typeKey(mt.Elem())
	ks := flatten(mt.Key())[0].Sort
	dom := e.mapDom(st, mt, m)
	out := SV{T: mt.Elem()}
	for _, l := range flatten(mt.Elem()) {
		e.ctx.refLeaf[cls+"#val"+l.Path] = isRefLeaf(l)
		va := e.heapGet(st, cls+"#val"+l.Path, ArrSort(SInt, ArrSort(ks, l.Sort)))
		// absent keys read as the zero value; a nil map (ref 0) has an empty domain
		out.L = append(out.L, Ite(And(Not(Eq(m, IntLit(0))), Select(dom, k)), Select(Select(va, m), k), ZeroOf(l.Sort)))
	}
	return out
}

func (e *Exec) lookup(fr *frame, x *ssa.Lookup, st *State) {
	mt, ok := x.X.Type().Underlying().(*types.Map)
	if !ok {
		// string index
		s := e.val(st, x.X)
		idx := e.val(st, x.Index).L[0]
		e.safety(fr, st, "index:"+valName(x.X), And(Ge(idx, IntLit(0)), Lt(idx, app(SInt, "str.len", s.L[0]))), x)
		st.env[x] = scalar(x.Type(), app(SInt, "str.to_code", app(SString, "str.at", s.L[0], idx)))
		return
	}
	m := e.val(st, x.X).L[0]
	k := e.val(st, x.Index).L[0]
	v := e.mapVal(st, mt, m, k)
	if x.CommaOk {
		ok := And(Not(Eq(m, IntLit(0))), Select(e.mapDom(st, mt, m), k))
		st.env[x] = SV{T: x.Type(), L: append(append([]Term{}, v.L...), ok)}
		return
	}
	st.env[x] = v
}

func (e *Exec) next(fr *frame, x *ssa.Next, st *State) {
	rng, ok := x.Iter.(*ssa.Range)
	if !ok || x.IsString {
		e.abort(st, "next over string")
		return
	}
	mt := rng.X.Type().Underlying().(*types.Map)
	ks := flatten(mt.Key())[0].Sort
	m := e.val(st, rng).L[0]
	vis := st.ghost["visited:"+rng.Name()]
	dom := e.mapDom(st, mt, m)
	okT := e.ctx.fresh("next.ok", SBool)
	k := e.ctx.fresh("next.key", ks)
	// ok ==> k in dom, not visited ; !ok ==> every key of dom visited
	kq := "k!q"
	allVisited := Term{fmt.Sprintf("(forall ((%s %s)) (=> (and (not (= %s 0)) (select %s %s)) (select %s %s)))", kq, ks, m.S, dom.S, kq, vis.S, kq), SBool}
	st.pc = append(st.pc,
		Implies(okT, And(Not(Eq(m, IntLit(0))), Select(dom, k), Not(Select(vis, k)))),
		Implies(Not(okT), allVisited))
	st.ghost["visited:"+rng.Name()] = e.ctx.def("vis", Ite(okT, Store(vis, k, BoolLit(true)), vis))
	st.ghost["lastkey:"+rng.Name()] = k
	v := e.mapVal(st, mt, m, k)
	e.wfAssume(st, v)
	// result tuple (ok, key, value)
	tt := x.Type().(*types.Tuple)
	out := SV{T: x.Type(), L: []Term{okT}}
	// key / value may be typed as invalid when unused
	if len(flatten(tt.At(1).Type())) == 1 && isValidType(tt.At(1).Type()) {
		out.L = append(out.L, k)
	} else {
		out.L = append(out.L, padLeaves(tt.At(1).Type())...)
	}
	if isValidType(tt.At(2).Type()) {
		out.L = append(out.L, v.L...)
	} else {
		out.L = append(out.L, padLeaves(tt.At(2).Type())...)
	}
	st.env[x] = out
}

func isValidType(t types.Type) bool {
	if b, ok := t.(*types.Basic); ok && b.Kind() == types.Invalid {
		return false
	}
	return true
}

func padLeaves(t types.Type) []Term {
	var out []Term
	for _, l := range flatten(t) {
		out = append(out, ZeroOf(l.Sort))
	}
	return out
}

func (e *Exec) unop(fr *frame, x *ssa.UnOp, st *State) {
	v := e.val(st, x.X)
	switch x.Op {
	case token.MUL:
		a := e.addrOf(st, v, fr, valName(x.X), x)
		if a == nil {
			e.abort(st, "load through unsupported pointer "+x.X.Name())
			return
		}
		r := e.load(st, a)
		r.T = x.Type()
		if a.Kind != AGlobal && a.Kind != ALocal && !st.localRefs[a.Ref.S] {
			st.impure = append(st.impure, "reads "+a.String())
		}
		if a.Kind == AGlobal && nonNilGlobals[a.Class] && len(r.L) == 1 {
			st.pc = append(st.pc, Not(Eq(r.L[0], IntLit(0))))
		}
		e.wfAssume(st, r)
		if e.hooks != nil {
			e.hooks.OnLoad(e, st, a, &r, x)
		}
		st.env[x] = r
	case token.NOT:
		st.env[x] = scalar(x.Type(), Not(v.L[0]))
	case token.SUB:
		st.env[x] = scalar(x.Type(), Sub(IntLit(0), v.L[0]))
	default:
		e.abort(st, "unsupported unary op "+x.Op.String())
	}
}

func (e *Exec) binop(st *State, op token.Token, a, b SV, rt types.Type, in ssa.Instruction) SV {
	isStr := len(a.L) == 1 && a.L[0].Sort == SString
	switch op {
	case token.EQL, token.NEQ:
		var eqs []Term
		n := len(a.L)
		if len(b.L) < n {
			n = len(b.L)
		}
		if _, isSlice := a.T.Underlying().(*types.Slice); isSlice {
			// comparison with nil only
			eqs = append(eqs, Eq(a.L[0], b.L[0]))
		} else {
			for i := 0; i < n; i++ {
				eqs = append(eqs, Eq(a.L[i], b.L[i]))
			}
		}
		r := And(eqs...)
		if op == token.NEQ {
			r = Not(r)
		}
		return scalar(rt, r)
	case token.ADD:
		if isStr {
			return scalar(rt, app(SString, "str.++", a.L[0], b.L[0]))
		}
		return scalar(rt, Add(a.L[0], b.L[0]))
	case token.SUB:
		return scalar(rt, Sub(a.L[0], b.L[0]))
	case token.MUL:
		return scalar(rt, app(SInt, "*", a.L[0], b.L[0]))
	case token.QUO:
		// Go integer division truncates toward zero; only non-negative operands are modelled exactly
		return scalar(rt, app(SInt, "div", a.L[0], b.L[0]))
	case token.REM:
		return scalar(rt, app(SInt, "mod", a.L[0], b.L[0]))
	case token.LSS:
		if isStr {
			return scalar(rt, app(SBool, "str.<", a.L[0], b.L[0]))
		}
		return scalar(rt, Lt(a.L[0], b.L[0]))
	case token.LEQ:
		if isStr {
			return scalar(rt, app(SBool, "str.<=", a.L[0], b.L[0]))
		}
		return scalar(rt, Le(a.L[0], b.L[0]))
	case token.GTR:
		if isStr {
			return scalar(rt, app(SBool, "str.<", b.L[0], a.L[0]))
		}
		return scalar(rt, Gt(a.L[0], b.L[0]))
	case token.GEQ:
		if isStr {
			return scalar(rt, app(SBool, "str.<=", b.L[0], a.L[0]))
		}
		return scalar(rt, Ge(a.L[0], b.L[0]))
	case token.LAND, token.AND:
		if a.L[0].Sort == SBool {
			return scalar(rt, And(a.L[0], b.L[0]))
		}
	case token.LOR, token.OR:
		if a.L[0].Sort == SBool {
			return scalar(rt, Or(a.L[0], b.L[0]))
		}
	}
	// bit operations on integers: uninterpreted
	return scalar(rt, e.ctx.uf("bitop."+op.String(), SInt, a.L[0], b.L[0]))
}

func (e *Exec) typeAssert(fr *frame, x *ssa.TypeAssert, st *State) {
	v := e.val(st, x.X)
	val := v.L[0]
	var ok Term
	if types.IsInterface(x.AssertedType) {
		ok = And(Not(Eq(val, IntLit(0))), e.ctx.uf("implements:"+typeKey(x.AssertedType), SBool, e.dyn(val)))
	} else {
		ok = And(Not(Eq(val, IntLit(0))), Eq(e.dyn(val), e.tagOf(x.AssertedType)))
	}
	if x.CommaOk {
		res := SV{T: x.Type()}
		if len(flatten(x.AssertedType)) == 1 && flatten(x.AssertedType)[0].Sort == SInt {
			res.L = []Term{Ite(ok, val, IntLit(0)), ok}
		} else {
			fv := e.freshSV("assert", x.AssertedType)
			res.L = append(fv.L, ok)
		}
		st.env[x] = res
		return
	}
	e.safety(fr, st, "type-assert:"+typeKey(x.AssertedType), ok, x)
	if len(flatten(x.AssertedType)) == 1 && flatten(x.AssertedType)[0].Sort == SInt {
		st.env[x] = scalar(x.Type(), val)
	} else {
		st.env[x] = e.freshSV("assert", x.AssertedType)
	}
}

func (e *Exec) sliceOp(fr *frame, x *ssa.Slice, st *State) {
	base := e.val(st, x.X)
	var lo, hi Term
	hasLo, hasHi := x.Low != nil, x.High != nil
	if hasLo {
		lo = e.val(st, x.Low).L[0]
	} else {
		lo = IntLit(0)
	}
	switch t := x.X.Type().Underlying().(type) {
	case *types.Basic: // string
		ln := app(SInt, "str.len", base.L[0])
		if hasHi {
			hi = e.val(st, x.High).L[0]
		} else {
			hi = ln
		}
		e.safety(fr, st, "slice-bounds:"+valName(x.X), And(Ge(lo, IntLit(0)), Le(lo, hi), Le(hi, ln)), x)
		st.env[x] = scalar(x.Type(), app(SString, "str.substr", base.L[0], lo, Sub(hi, lo)))
	case *types.Slice:
		if hasHi {
			hi = e.val(st, x.High).L[0]
		} else {
			hi = base.L[2]
		}
		mx := base.L[3]
		if x.Max != nil {
			mx = e.val(st, x.Max).L[0]
		}
		e.safety(fr, st, "slice-bounds:"+valName(x.X), And(Ge(lo, IntLit(0)), Le(lo, hi), Le(hi, mx), Le(mx, base.L[3])), x)
		st.env[x] = SV{T: x.Type(), L: []Term{base.L[0], Add(base.L[1], lo), Sub(hi, lo), Sub(mx, lo)}, Prot: base.Prot}
	case *types.Pointer: // *array
		at := t.Elem().Underlying().(*types.Array)
		n := IntLit(at.Len())
		if hasHi {
			hi = e.val(st, x.High).L[0]
		} else {
			hi = n
		}
		e.safety(fr, st, "slice-bounds:"+valName(x.X), And(Ge(lo, IntLit(0)), Le(lo, hi), Le(hi, n)), x)
		st.env[x] = SV{T: x.Type(), L: []Term{base.L[0], lo, Sub(hi, lo), Sub(n, lo)}}
	default:
		e.abort(st, "slice of "+typeKey(x.X.Type()))
	}
}
