package main

import (
	"strconv"
	"fmt"
	"go/ast"
	"os"
	"go/types"
	"sort"
	"strings"
	"sync"

	"golang.org/x/tools/go/ssa"
)

// verifyFunction generates the obligations of fn against its contract sp.
func (e *Exec) verifyFunction(fn *ssa.Function, sp *FuncSpec) {
	e.top, e.topSpec = fn, sp
	st := e.newState()
	e.initGlobals(st, fn)
	vars := map[string]SV{}
	var args []SV
	for _, p := range fn.Params {
		v := e.freshSV("in."+p.Name(), p.Type())
		e.wfAssume(st, v)
		args = append(args, v)
	}
	bindParams(fn, func(i int, p *ssa.Parameter) (SV, bool) { return args[i], true }, vars)
	if recvNowPointer[fnName(fn)] && len(args) > 0 && len(args[0].L) == 1 {
		st.pc = append(st.pc, Not(Eq(args[0].L[0], IntLit(0))))
	}
	var binds []SV
	for _, fv := range fn.FreeVars {
		v := e.freshSV("fv."+fv.Name(), fv.Type())
		e.wfAssume(st, v)
		st.pc = append(st.pc, Not(Eq(v.L[0], IntLit(0))))
		binds = append(binds, v)
		if a := e.addrOf(st, v, nil, "", nil); a != nil {
			lv := e.load(st, a)
			e.wfAssume(st, lv)
			vars[fv.Name()] = lv
		}
	}
	e.entry = st.clone()
	e.entryVars = vars
	name := fnName(fn)
	env := &specEnv{into: st, st: st, old: e.entry, vars: vars, oldVars: vars, pkg: pkgOf(fn)}
	for _, rq := range sp.Requires {
		g, err := e.evalSpecBool(rq.Expr, env)
		if err != nil {
			if fn.Parent() != nil {
				// contracts of function literals are keyed by ordinal ($1, $2, ...): a precondition that cannot be
				// evaluated means the ordinal now names a different literal, the contract is not about this function
				e.misfit = true
				e.notes = appendUnique(e.notes, fmt.Sprintf("%s: the contract does not fit the function literal that now has this ordinal (requires %s: %v): it is void", name, rq.Label, err))
				return
			}
			e.notes = appendUnique(e.notes, fmt.Sprintf("%s: requires %s cannot be evaluated on the current code (%v)", name, rq.Label, err))
			e.oblige(st, name+"/cover:pre", append(append([]string{}, sp.Props...), sp.SafetyProps...), BoolLit(false), fmt.Sprintf("precondition %s cannot be evaluated on the current code: %v", rq.Label, err))
			return
		}
		st.pc = append(st.pc, g)
	}
	for _, ax := range sp.Axioms {
		g, err := e.evalSpecBool(ax.Expr, env)
		if err != nil {
			e.notes = appendUnique(e.notes, fmt.Sprintf("%s: axiom %s cannot be evaluated on the current code (%v): not assumed", name, ax.Label, err))
			continue
		}
		st.pc = append(st.pc, g)
	}
	for _, lm := range sp.Lemmas {
		e.proveLemma(st, name, sp, lm, env)
	}
	// vacuity guard: the precondition must be satisfiable
	cov := e.oblige(st, name+"/cover:pre", append(append([]string{}, sp.Props...), sp.SafetyProps...), BoolLit(true), "precondition is satisfiable")
	cov.Cover = true
	e.entry = st.clone()
	nret := 0
	atReturn := func(st2 *State, results []SV) {
		nret++
		e.curPath = strings.Join(st2.trace, ",")
		rv := map[string]SV{}
		for k, v := range vars {
			rv[k] = v
		}
		all := SV{}
		for _, r := range results {
			all.L = append(all.L, r.L...)
		}
		e.bindResults(rv, fn, sp, all)
		for _, fv := range fn.FreeVars {
			if a := e.addrOf(st2, st2.env[fv], nil, "", nil); a != nil {
				rv[fv.Name()] = e.load(st2, a)
			}
		}
		env := &specEnv{goal: true, into: st2, st: st2, old: e.entry, vars: rv, oldVars: vars, pkg: pkgOf(fn), fr: nil}
		for _, en := range sp.Ensures {
			// clauses labelled bounded-... speak about the complete effect trace of a path (events inside loops
			// included): they can only be evaluated where loops are unrolled, i.e. in the bounded fallback, where
			// they take over what the loop invariants carry in the deductive proof
			if strings.HasPrefix(en.Label, "bounded-") && e.bounded == 0 {
				continue
			}
			g, err := e.evalSpecBool(en.Expr, env)
			if err != nil {
				e.notes = appendUnique(e.notes, fmt.Sprintf("%s: ensures %s: %v", name, en.Label, err))
				e.oblige(st2, name+"/post:"+en.Label, en.Props, BoolLit(false), fmt.Sprintf("contract clause cannot be evaluated on the current code: %v", err))
				continue
			}
			e.oblige(st2, name+"/post:"+en.Label, en.Props, g, en.Src)
			// vacuity guard: the premise of a conditional postcondition must be reachable on some path
			if ce, ok := en.Expr.(*ast.CallExpr); ok && e.bounded == 0 {
				if id, ok := ce.Fun.(*ast.Ident); ok && id.Name == "implies" && len(ce.Args) == 2 {
					if prem, err := e.evalSpecBool(ce.Args[0], env); err == nil && prem.S != "false" {
						saved := st2.pc
						st2.pc = append(append([]Term(nil), saved...), prem)
						cv := e.oblige(st2, name+"/cover:premise:"+en.Label, en.Props, BoolLit(true), "some returning path satisfies the premise of this postcondition")
						cv.Cover = true
						st2.pc = saved
					}
				}
			}
		}
		if sp.Functional != "" {
			// the result is named by an uninterpreted function of the arguments: sound only if it
			// depends on nothing else. Structural check: no read of pre-existing heap, no impure callee.
			e.oblige(st2, name+"/functional", sp.Props, BoolLit(len(st2.impure) == 0), "result must be a function of the arguments only: "+strings.Join(st2.impure, "; "))
			var as []Term
			for _, a := range args {
				as = append(as, a.L...)
			}
			for k := range all.L {
				// the defining equations, usable by later obligations on this path
				st2.pc = append(st2.pc, Eq(all.L[k], e.ctx.uf(functionalName(sp.Functional, k, len(all.L)), all.L[k].Sort, as...)))
			}
		}
		// vacuity guard: some returning path must be feasible (contradictory invariants / contracts would make every proof trivial)
		cv := e.oblige(st2, name+"/cover:return", append(append([]string{}, sp.Props...), sp.SafetyProps...), BoolLit(true), "at least one path reaching a return is feasible")
		cv.Cover = true
		e.frameCheck(st2, name, sp)
		e.effectsDeclared(st2, name, sp)
		e.exitHook(st2, name, sp, false)
	}
	e.onExit = func(st2 *State) { atReturn(st2, nil) }
	e.runFunc(fn, sp, args, binds, st, false, atReturn, func(st2 *State, v SV) {
		e.curPath = strings.Join(st2.trace, ",")
		if !sp.AllowPanic {
			e.oblige(st2, name+"/safe:explicit-panic", sp.SafetyProps, BoolLit(false), "explicit panic reachable")
		}
		e.exitHook(st2, name, sp, true)
	})
	if nret == 0 && len(e.errs) == 0 {
		// every path was cut (unsupported construct, bound): nothing is proved about the function
		cv := e.oblige(st, name+"/cover:return", append(append([]string{}, sp.Props...), sp.SafetyProps...), BoolLit(false), "no path reaches a return")
		_ = cv
	}
}

// effectsDeclared: every event on the path has an effect class the contract declares.
func (e *Exec) effectsDeclared(st *State, name string, sp *FuncSpec) {
	declared := strings.Fields(sp.effects())
	var bad []string
	for _, ev := range st.events {
		if ev.Kind != "extern" && ev.Kind != "call" {
			continue
		}
		for _, k := range strings.Fields(ev.Mode) {
			if !hasProp(declared, k) {
				bad = appendUnique(bad, ev.Callee+" is "+k)
			}
		}
	}
	e.oblige(st, name+"/effects-declared", []string{"C14", "C17", "C18"}, BoolLit(len(bad) == 0),
		fmt.Sprintf("contract declares effect classes %v; path performs: %s", declared, strings.Join(bad, "; ")))
}

func (e *Exec) exitHook(st *State, name string, sp *FuncSpec, panicked bool) {
	if fx := effectSpecs[name]; fx != nil {
		fx(e, st, name, sp, panicked)
	}
}

// frameCheck: heap classes written on this path but not listed in modifies
// must be unchanged on every object that existed at entry.
func (e *Exec) frameCheck(st *State, name string, sp *FuncSpec) {
	var bad []string
	for _, h := range sortedKeys(st.written) {
		if !strings.HasPrefix(h, "H:") && !strings.HasPrefix(h, "A:") && !strings.HasPrefix(h, "M:") && !strings.HasPrefix(h, "G:") {
			continue
		}
		allowed := false
		for _, m := range sp.Modifies {
			if strings.HasPrefix(h, m) {
				allowed = true
			}
		}
		if allowed {
			continue
		}
		bad = append(bad, h)
	}
	for _, h := range bad {
		cur := st.heap[h]
		ent := e.heapGet(e.entry, h, cur.Sort)
		var g Term
		if strings.HasPrefix(h, "G:") {
			g = Eq(cur, ent)
		} else {
			g = Term{fmt.Sprintf("(forall ((p!f Int)) (=> (and (<= 0 p!f) (< p!f %s)) (= (select %s p!f) (select %s p!f))))", e.entry.alloc.S, cur.S, ent.S), SBool}
		}
		e.oblige(st, name+"/frame:"+h, sp.Props, g, "not in modifies: unchanged on all objects allocated at entry")
	}
}

// initGlobals executes the straight-line part of the package initialiser so
// that immutable package-level tables have their values.
func (e *Exec) initGlobals(st *State, fn *ssa.Function) {
	pkg := fn.Pkg
	for f := fn; pkg == nil && f != nil; f = f.Parent() {
		pkg = f.Pkg
	}
	if pkg == nil {
		return
	}
	init := pkg.Func("init")
	if init == nil || len(init.Blocks) < 2 {
		return
	}
	saveObls, saveErrs, saveTop := e.obls, e.errs, e.top
	fr := &frame{fn: init, loops: map[*ssa.BasicBlock]*loopInfo{}, names: map[string][]dbgRef{}}
	fr.ret = func(*State, []SV) {}
	b := init.Blocks[1]
	for _, in := range b.Instrs {
		switch x := in.(type) {
		case *ssa.DebugRef, *ssa.Jump, *ssa.If, *ssa.Return:
			continue
		case ssa.CallInstruction:
			c := x.Common()
			callee := c.StaticCallee()
			if callee != nil && callee.Name() == "init" {
				continue
			}
			done := false
			e.call(fr, x, st, func(st2 *State, res SV) {
				if v, ok := in.(ssa.Value); ok {
					res.T = v.Type()
					st.env[v] = res
				}
				done = true
			})
			if !done {
				if v, ok := in.(ssa.Value); ok {
					st.env[v] = e.freshSV("init", v.Type())
				}
			}
		default:
			e.step(fr, in, st)
		}
		if st.aborted != "" {
			st.aborted = ""
		}
	}
	e.obls, e.errs, e.top = saveObls, saveErrs, saveTop
	st.written = map[string]bool{}
	st.events = nil
	// mutable globals (stored to outside init) lose their initial value
	for h := range st.heap {
		if strings.HasPrefix(h, "G:") && e.ld.mutableGlobal(h) {
			delete(st.heap, h)
		}
	}
}

func (l *Loaded) mutableGlobal(heapName string) bool {
	// heapName: G:<pkgQual>.<name>#leaf
	nm := strings.TrimPrefix(heapName, "G:")
	if k := strings.Index(nm, "#"); k >= 0 {
		nm = nm[:k]
	}
	if l.mutGlobals == nil {
		l.mutGlobals = map[string]bool{}
		for _, f := range l.funcs {
			if f.Name() == "init" {
				continue
			}
			for _, b := range f.Blocks {
				for _, in := range b.Instrs {
					for _, op := range in.Operands(nil) {
						g, ok := (*op).(*ssa.Global)
						if !ok {
							continue
						}
						if u, ok := in.(*ssa.UnOp); ok && u.X == g {
							continue // plain load
						}
						l.mutGlobals[pkgQual(g.Pkg.Pkg)+"."+g.Name()] = true
					}
				}
			}
		}
	}
	return l.mutGlobals[nm]
}

// ---------------------------------------------------------------------------
// Query construction

const prelude = `(set-option :produce-models true)
(set-logic ALL)
`

func smtSymbols(s string, f func(string)) {
	i := 0
	for i < len(s) {
		c := s[i]
		switch {
		case c == '"':
			i++
			for i < len(s) {
				if s[i] == '"' {
					if i+1 < len(s) && s[i+1] == '"' {
						i += 2
						continue
					}
					break
				}
				i++
			}
			i++
		case c == '|':
			j := strings.IndexByte(s[i+1:], '|')
			if j < 0 {
				return
			}
			f(s[i : i+j+2])
			i += j + 2
		case c == '(' || c == ')' || c == ' ' || c == '\n' || c == '\t':
			i++
		default:
			j := i
			for j < len(s) && s[j] != '(' && s[j] != ')' && s[j] != ' ' && s[j] != '\n' && s[j] != '\t' {
				j++
			}
			f(s[i:j])
			i = j
		}
	}
}

func declName(d string) string {
	// (declare-fun NAME ... / (define-fun NAME ...
	k := strings.IndexByte(d, ' ')
	rest := d[k+1:]
	if rest[0] == '|' {
		j := strings.IndexByte(rest[1:], '|')
		return rest[:j+2]
	}
	j := strings.IndexByte(rest, ' ')
	return rest[:j]
}

// relevantPc: cone of influence of the goal among the path's assumptions (assumptions sharing a
// non-hub symbol with the goal, transitively). Dropping assumptions is sound for validity; the
// full query is tried when the filtered one is not proved.
func (o *Obligation) relevantPc() []Term {
	c := o.Ctx
	idx := map[string]int{}
	for i, d := range c.decls {
		idx[declName(d)] = i
	}
	memo := map[string]map[string]bool{}
	var symsOf func(text string, depth int) map[string]bool
	symsOf = func(text string, depth int) map[string]bool {
		out := map[string]bool{}
		smtSymbols(text, func(t string) {
			if out[t] {
				return
			}
			out[t] = true
			if i, ok := idx[t]; ok && strings.HasPrefix(c.decls[i], "(define-fun") && depth < 12 {
				m, ok := memo[t]
				if !ok {
					m = symsOf(c.decls[i][len("(define-fun "):], depth+1)
					memo[t] = m
				}
				for k := range m {
					out[k] = true
				}
			}
		})
		return out
	}
	hub := func(s string) bool {
		return strings.HasPrefix(s, "alloc") || strings.HasPrefix(s, "|alloc") || s == "dyn" || s == "at" || strings.HasPrefix(s, "mix.") || s == "select" || s == "store" ||
			s == "and" || s == "or" || s == "not" || s == "=>" || s == "=" || s == "ite" || s == "forall" || s == "exists" || s == "Int" || s == "String" || s == "Bool" || s == "Array" ||
			s == "<" || s == "<=" || s == ">" || s == ">=" || s == "+" || s == "-" || s == "true" || s == "false" || s == "0" || s == "1" || strings.HasPrefix(s, "str.") || s == "!" || s == ":pattern" || s == "as" || s == "const" || s == "let"
	}
	rel := map[string]bool{}
	for k := range symsOf(o.Goal.S, 0) {
		if !hub(k) {
			rel[k] = true
		}
	}
	n := len(o.Pc)
	sy := make([]map[string]bool, n)
	for i, p := range o.Pc {
		sy[i] = symsOf(p.S, 0)
	}
	in := make([]bool, n)
	for changed := true; changed; {
		changed = false
		for i := 0; i < n; i++ {
			if in[i] {
				continue
			}
			hit := false
			for k := range sy[i] {
				if rel[k] {
					hit = true
					break
				}
			}
			if !hit {
				continue
			}
			in[i] = true
			changed = true
			for k := range sy[i] {
				if !hub(k) {
					rel[k] = true
				}
			}
		}
	}
	var out []Term
	for i, p := range o.Pc {
		if in[i] {
			out = append(out, p)
		}
	}
	return out
}

func (o *Obligation) Query(withModel bool) string {
	c := o.Ctx
	idx := map[string]int{}
	for i, d := range c.decls {
		if i >= o.NDecls && false {
			break
		}
		idx[declName(d)] = i
	}
	need := map[int]bool{}
	var work []string
	add := func(s string) { smtSymbols(s, func(t string) { work = append(work, t) }) }
	for _, p := range o.Pc {
		add(p.S)
	}
	add(o.Goal.S)
	for _, a := range c.axioms {
		add(a)
	}
	for len(work) > 0 {
		t := work[len(work)-1]
		work = work[:len(work)-1]
		i, ok := idx[t]
		if !ok || need[i] {
			continue
		}
		need[i] = true
		if strings.HasPrefix(c.decls[i], "(define-fun") {
			add(c.decls[i][len("(define-fun "):])
		}
		if ax, ok := c.symAxiom[t]; ok {
			add(ax)
		}
	}
	var ids []int
	for i := range need {
		ids = append(ids, i)
	}
	sort.Ints(ids)
	var b strings.Builder
	b.WriteString(prelude)
	usesAt := strings.Contains(o.Goal.S, "(at ")
	for _, p := range o.Pc {
		if usesAt {
			break
		}
		usesAt = strings.Contains(p.S, "(at ")
	}
	for _, i := range ids {
		if usesAt {
			break
		}
		usesAt = strings.Contains(c.decls[i], "(at ")
	}
	if usesAt {
		b.WriteString(atDecl)
	}
	var all strings.Builder
	all.WriteString(o.Goal.S)
	for _, p := range o.Pc {
		all.WriteString(p.S)
	}
	for _, i := range ids {
		all.WriteString(c.decls[i])
		if ax, ok := c.symAxiom[declName(c.decls[i])]; ok {
			all.WriteString(ax)
		}
	}
	b.WriteString(mixDecls(all.String()))
	fmt.Fprintf(&b, "; obligation %s\n", o.Name)
	if o.Note != "" {
		fmt.Fprintf(&b, "; %s\n", strings.ReplaceAll(o.Note, "\n", " "))
	}
	for _, i := range ids {
		b.WriteString(c.decls[i])
		b.WriteByte('\n')
	}
	// closedness of the heap symbols used (every stored reference is allocated)
	for _, i := range ids {
		if ax, ok := c.symAxiom[declName(c.decls[i])]; ok {
			b.WriteString(ax)
			b.WriteByte('\n')
		}
	}
	for _, a := range c.axioms {
		b.WriteString(a)
		b.WriteByte('\n')
	}
	for _, p := range o.Pc {
		if p.S == "true" {
			continue
		}
		b.WriteString("(assert " + p.S + ")\n")
	}
	if !o.Cover {
		b.WriteString("(assert (not " + o.Goal.S + "))\n")
	}
	b.WriteString("(check-sat)\n")
	if withModel {
		b.WriteString("(get-model)\n")
	}
	return b.String()
}

// Discharged reports whether the obligation holds.
func (o *Obligation) Discharged() bool {
	if o.Cover {
		// vacuity guard: the path condition must not be provably contradictory
		// (a solver that was killed or ran out of time says nothing; an SMT-level error in the query does)
		return o.Res.Status != "unsat" && !(o.Res.Status == "error" && (strings.Contains(o.Res.Output, "(error \"line") || strings.Contains(o.Res.Output, "Parse Error")))
	}
	return o.Res.Status == "unsat"
}

// expectedProved: obligations proved on the pinned tree (the baseline of the property being checked)
var expectedProved = map[string]bool{}

func dischargeAll(obls []*Obligation, timeoutS int) {
	var wg sync.WaitGroup
	// circuit breaker: once many obligations of one function have timed out, the rest of that function's
	// obligations are not attempted (the verdict for the function is "not proved" either way)
	var tmu sync.Mutex
	timeouts := map[string]int{}
	failedByName := map[string]int{}
	const maxTimeouts = 24
	gate := make(chan struct{}, 20) // obligations in flight (the breaker is consulted when one is admitted)
	for _, o := range obls {
		if o.Goal.S == "true" && !o.Cover {
			o.Res = SolverResult{Status: "unsat", Solver: "trivial"}
			continue
		}
		wg.Add(1)
		go func(o *Obligation) {
			defer wg.Done()
			gate <- struct{}{}
			defer func() { <-gate }()
			t := timeoutS
			if o.Cover {
				t = 2 // vacuity guards only need "not provably contradictory"
				o.Res = Solve(o.Name, o.Query(false), t, false)
				if o.Discharged() && o.Res.File != "" {
					os.Remove(o.Res.File)
				}
				return
			}
			// first the cone of influence of the goal (small query), then everything
			if full := o.Pc; len(full) > 25 && os.Getenv("GOVC_COI") != "" {
				if rel := o.relevantPc(); len(rel) < len(full) {
					o.Pc = rel
					r := Solve(o.Name+".coi", o.Query(false), t, false)
					o.Pc = full
					if r.Status == "unsat" {
						r.Solver += " (cone of influence)"
						o.Res = r
						return
					}
				}
			}
			if !o.Cover && !expectedProved[o.Name] {
				// a clause that has already failed on several paths is failed: further instances add nothing
				// (never for obligations that are proved on the pinned tree: there a failure is more likely a busy machine)
				tmu.Lock()
				nf := failedByName[o.Name]
				tmu.Unlock()
				if nf >= 4 {
					o.Res = SolverResult{Status: "unknown", Solver: "skipped", Output: "not attempted: this obligation has already failed on " + strconv.Itoa(nf) + " other paths"}
					return
				}
			}
			if o.Top != "" && !expectedProved[o.Name] {
				tmu.Lock()
				n := timeouts[o.Top]
				tmu.Unlock()
				if n >= maxTimeouts {
					o.Res = SolverResult{Status: "timeout", Solver: "skipped", Output: "not attempted: " + strconv.Itoa(n) + " obligations of " + o.Top + " have already timed out"}
					return
				}
			}
			o.Res = Solve(o.Name, o.Query(true), t, false)
			if !o.Cover && o.Res.Status != "unsat" {
				tmu.Lock()
				failedByName[o.Name]++
				tmu.Unlock()
			}
			if o.Top != "" && (o.Res.Status == "timeout" || o.Res.Status == "unknown" && o.Res.TimeS > float64(t)*0.8) {
				tmu.Lock()
				timeouts[o.Top]++
				tmu.Unlock()
			}
		}(o)
	}
	wg.Wait()
	// a timeout or a killed solver says nothing about the goal, and both happen when the machine is busy
	// (many checks side by side): such queries are asked once more, a few at a time, with three times the budget
	var again []*Obligation
	for _, o := range obls {
		if !o.Cover && (o.Res.Status == "timeout" || o.Res.Status == "error") && o.Res.Solver != "skipped" && !strings.Contains(o.Res.Output, "solvers disagree") {
			again = append(again, o)
		}
	}
	nExpected := 0
	for _, o := range again {
		if expectedProved[o.Name] {
			nExpected++
		}
	}
	if nExpected > 0 && len(again) > 40 {
		// many timeouts, among them obligations that are proved on the pinned tree: the machine is busy. Only
		// those are asked again.
		var keep []*Obligation
		for _, o := range again {
			if expectedProved[o.Name] {
				keep = append(keep, o)
			}
		}
		again = keep
		if len(again) > 400 {
			again = again[:400]
		}
	}
	if len(again) > 0 && (len(again) <= 40 || nExpected > 0) {
		sem := make(chan struct{}, 4)
		for _, o := range again {
			wg.Add(1)
			go func(o *Obligation) {
				defer wg.Done()
				sem <- struct{}{}
				defer func() { <-sem }()
				q := o.Query(true)
				forgetResult(q)
				t := timeoutS * 3
				if t > 90 {
					t = 90
				}
				r := Solve(o.Name, q, t, false)
				r.TimeS += o.Res.TimeS
				o.Res = r
			}(o)
		}
		wg.Wait()
	}
}

// aggregate obligations by name
type AggOb struct {
	Name    string
	Props   []string
	N       int
	Failed  []*Obligation
	TimeS   float64
	Solvers map[string]int
	anyCover bool
	Top     string
}

func aggregate(obls []*Obligation) []*AggOb {
	m := map[string]*AggOb{}
	var order []string
	for _, o := range obls {
		a := m[o.Name]
		if a == nil {
			a = &AggOb{Name: o.Name, Solvers: map[string]int{}, Top: o.Top}
			m[o.Name] = a
			order = append(order, o.Name)
		}
		a.N++
		for _, p := range o.Props {
			found := false
			for _, q := range a.Props {
				if q == p {
					found = true
				}
			}
			if !found {
				a.Props = append(a.Props, p)
			}
		}
		if !o.Discharged() {
			a.Failed = append(a.Failed, o)
		} else if o.Cover {
			a.anyCover = true
		}
		if !o.Res.Cached {
			a.TimeS += o.Res.TimeS
		}
		a.Solvers[o.Res.Solver]++
	}
	var out []*AggOb
	for _, n := range order {
		a := m[n]
		// representative failure: one with a model first, one that was not attempted last
		rank := func(o *Obligation) int {
			switch {
			case o.Res.Solver == "skipped":
				return 3
			case o.Res.Status == "sat":
				return 0
			case o.Res.Status == "unknown":
				return 1
			}
			return 2
		}
		sort.SliceStable(a.Failed, func(i, j int) bool { return rank(a.Failed[i]) < rank(a.Failed[j]) })
		// cover groups hold if any member is satisfiable
		if strings.Contains(a.Name, "/cover:") && a.anyCover {
			a.Failed = nil
		}
		out = append(out, a)
	}
	return out
}

var _ = types.Typ

// proveLemma: ghost call of a verified functional contract at entry (see Lemma). Everything it adds to the path
// condition is either an obligation that was just emitted or a postcondition instance of that contract.
func (e *Exec) proveLemma(st *State, name string, sp *FuncSpec, lm Lemma, env *specEnv) {
	label := lm.Clause.Label
	props := lm.Clause.Props
	if len(props) == 0 {
		props = append(append([]string{}, sp.Props...), sp.SafetyProps...)
	}
	fail := func(msg string) {
		e.notes = appendUnique(e.notes, fmt.Sprintf("%s: lemma %s: %s", name, label, msg))
		e.oblige(st, name+"/lemma:"+label, props, BoolLit(false), msg)
	}
	csp := e.specs.Lookup(lm.Callee)
	callee := e.ld.funcs[lm.Callee]
	if csp == nil || callee == nil {
		fail("the function " + lm.Callee + " or its contract is gone")
		return
	}
	if csp.Functional == "" || csp.Trusted || len(csp.Modifies) > 0 {
		fail("a lemma may only instantiate a verified `functional` contract without a modifies clause; " + lm.Callee + " is not one")
		return
	}
	if len(lm.Args) != len(callee.Params) {
		fail(fmt.Sprintf("%s takes %d arguments, the lemma gives %d", lm.Callee, len(callee.Params), len(lm.Args)))
		return
	}
	var args []SV
	for i, a := range lm.Args {
		sv, err := e.evalSpec(a, env)
		if err != nil {
			fail(fmt.Sprintf("argument %d cannot be evaluated: %v", i+1, err))
			return
		}
		sv.T = callee.Params[i].Type()
		args = append(args, sv)
	}
	vars := map[string]SV{}
	bindParams(callee, func(i int, p *ssa.Parameter) (SV, bool) { return args[i], true }, vars)
	pre := st.clone()
	cenv := &specEnv{goal: true, into: st, st: st, old: pre, vars: vars, oldVars: vars, pkg: pkgOf(callee)}
	for _, rq := range csp.Requires {
		g, err := e.evalSpecBool(rq.Expr, cenv)
		if err != nil {
			fail(fmt.Sprintf("requires %s of %s cannot be evaluated: %v", rq.Label, lm.Callee, err))
			return
		}
		e.oblige(st, fmt.Sprintf("%s/lemma-pre:%s:%s", name, label, rq.Label), props, g, "precondition of "+lm.Callee+" at the lemma's arguments")
		st.pc = append(st.pc, g)
	}
	var rt types.Type = callee.Signature.Results()
	if callee.Signature.Results().Len() == 1 {
		rt = callee.Signature.Results().At(0).Type()
	}
	res := e.freshSV("lemma."+callee.Name(), rt)
	e.wfAssume(st, res)
	var as []Term
	for _, a := range args {
		as = append(as, a.L...)
	}
	for k := range res.L {
		st.pc = append(st.pc, Eq(res.L[k], e.ctx.uf(functionalName(csp.Functional, k, len(res.L)), res.L[k].Sort, as...)))
	}
	e.bindResults(vars, callee, csp, res)
	env2 := &specEnv{noTrace: true, into: st, st: st, old: pre, vars: vars, oldVars: vars, pkg: pkgOf(callee)}
	for _, en := range csp.Ensures {
		if g, err := e.evalSpecBool(en.Expr, env2); err == nil {
			st.pc = append(st.pc, g)
		}
	}
	g, err := e.evalSpecBool(lm.Clause.Expr, env)
	if err != nil {
		fail(fmt.Sprintf("cannot be evaluated on the current code: %v", err))
		return
	}
	e.oblige(st, name+"/lemma:"+label, props, g, lm.Clause.Src)
	st.pc = append(st.pc, g)
}
