package main

// Per-property check driver: generates the obligations that serve a property,
// discharges them, compares with the committed baseline and known findings,
// writes evidence and replay files.

import (
	"runtime/debug"
	"go/types"
	"regexp"
	"golang.org/x/tools/go/ssa"
	"encoding/json"
	"fmt"
	"os"
	"os/exec"
	"path/filepath"
	"sort"
	"strconv"
	"strings"
	"time"
)

const (
	verifDir = "/verif"
	kfFile   = "/verif/KNOWN_FINDINGS.jsonl"
)

// the baseline of a development copy of the engine can be kept apart (VERIF_BASELINE)
var baselineFile = func() string {
	if f := os.Getenv("VERIF_BASELINE"); f != "" {
		return f
	}
	return "/verif/OBLIGATIONS.baseline.json"
}()

type KnownFinding struct {
	ID         string `json:"id"`
	Status     string `json:"status"` // "known" or "fixed"
	Property   string `json:"property"`
	Obligation string `json:"obligation"`
	What       string `json:"what"`
	Witness    string `json:"witness"`
	Commit     string `json:"commit,omitempty"`
}

func loadKnownFindings() []KnownFinding {
	data, err := os.ReadFile(kfFile)
	if err != nil {
		return nil
	}
	var out []KnownFinding
	for _, line := range strings.Split(string(data), "\n") {
		line = strings.TrimSpace(line)
		if line == "" || strings.HasPrefix(line, "#") || strings.HasPrefix(line, "fixed:") {
			continue
		}
		var k KnownFinding
		if json.Unmarshal([]byte(line), &k) == nil && k.Status != "fixed" {
			out = append(out, k)
		}
	}
	return out
}

type Baseline map[string][]string // property -> obligation names proved on the pinned tree

func loadBaseline() Baseline {
	b := Baseline{}
	data, err := os.ReadFile(baselineFile)
	if err == nil {
		json.Unmarshal(data, &b)
	}
	return b
}

// includes: obligations of the listed properties are necessary conditions of the key property and
// are therefore also discharged (and reported) by its check.
var includes = map[string][]string{
	"C01": {"C02", "C09", "C10", "C11", "C12"}, // the output compiles only if imports, qualifiers and identifiers are right
}

func hasProp(props []string, p string) bool {
	for _, x := range props {
		if x == p {
			return true
		}
		for _, inc := range includes[p] {
			if x == inc {
				return true
			}
		}
	}
	return false
}

// unified view of one obligation group after discharge
type ObResult struct {
	Name    string
	Backend string // solver name, go/types, template-ast, ssa-scan
	OK      bool
	Status  string
	N       int
	TimeS   float64
	Detail  string
	File    string
	Output  string
	Bounded bool // instance-level / arity-bounded
	Note    string
	ReplaySrc string
	Top     string // stage 1: the function under contract the obligation belongs to
}

type CheckRun struct {
	Prop      string
	Tier      string
	Seed      int64
	Results   []*ObResult
	Errs      []string
	MustFail  []string
	MustPass  []string
	Notes     []string
	Funcs     []string
	Trusted   map[string]string
	Assume    []string
	Schemas   int
	Start     time.Time
	SolverS   float64
	ByBackend map[string]int
	Gone       map[string]bool // functions under contract that no longer exist in the tree
	LoopCounts map[string]int
	ParamNames map[string][]string
	Sigs       map[string]string
	Fields     map[string][]string
	Fallback  []string // functions whose deductive proof was lost and replaced by the bounded fallback
}

var stage2Props = map[string]bool{"C01": true, "C02": true, "C03": true, "C04": true, "C05": true, "C06": true, "C07": true, "C08": true,
	"C09": true, "C10": true, "C11": true, "C12": true, "C13": true, "C14": true, "C15": true, "C16": true, "C19": true, "C20": true}

func cmdMain(args []string) int {
	if len(args) < 2 {
		usage()
	}
	switch args[0] {
	case "check":
		tier := "quick"
		if len(args) > 2 {
			tier = args[2]
		}
		if t := os.Getenv("VERIF_TIER"); t != "" && len(args) <= 2 {
			tier = t
		}
		return runCheck(args[1], tier, false)
	case "rebaseline":
		rc := 0
		for _, p := range args[1:] {
			if r := runCheck(p, "quick", true); r > rc {
				rc = r
			}
		}
		return rc
	case "replay":
		return cmdReplay(args[1])
	}
	usage()
	return 2
}

func runCheck(prop, tier string, rebaseline bool) int {
	run := &CheckRun{Prop: prop, Tier: tier, Start: time.Now(), Trusted: map[string]string{}, ByBackend: map[string]int{}}
	if s := os.Getenv("VERIF_SEED"); s != "" {
		run.Seed, _ = strconv.ParseInt(s, 10, 64)
	}
	verifSeed = run.Seed
	timeout := 10
	if tier == "thorough" {
		timeout = 60
		agreeMode = true
	}
	repo := "/repo"
	if r := os.Getenv("VERIF_REPO"); r != "" {
		repo = r
	}
	ld, specs, err := loadRepo(repo)
	if err != nil {
		fmt.Printf("UNDECIDED property=%s reason=cannot load %s with -tags verif: %v\n", prop, repo, err)
		writeEvidence(run, nil, 0)
		return 2
	}
	ld.bindSpecial()
	run.Assume = specs.Assumes
	pruneQueryFiles(2 * time.Hour)
	if rebaseline {
		run.Fields = map[string][]string{}
		for _, tp := range ld.allTypes {
			if !ld.modPaths[tp.Path()] {
				continue
			}
			for _, n := range tp.Scope().Names() {
				if tn, ok := tp.Scope().Lookup(n).(*types.TypeName); ok {
					if stt, ok := tn.Type().Underlying().(*types.Struct); ok {
						var fs []string
						for i := 0; i < stt.NumFields(); i++ {
							fs = append(fs, stt.Field(i).Name())
						}
						run.Fields[typeKey(tn.Type())] = fs
					}
				}
			}
		}
	}
	expectedProved = map[string]bool{}
	if !rebaseline {
		for _, n := range loadBaseline()[prop] {
			expectedProved[n] = true
		}
	}
	if !rebaseline {
		loadPinnedTables()
		for _, name := range specs.Order {
			if fn := ld.funcs[name]; fn != nil {
				if want, ok := pinnedSigs[name]; ok && want != sigKey(fn) {
					if sameButReceiver(fn, want, sigKey(fn)) {
						recvNowPointer[name] = true
						run.Notes = append(run.Notes, fmt.Sprintf("contract for %s: the receiver became a pointer; the contract is kept, the receiver is assumed non-nil (it was a value at every call)", name))
						continue
					}
					if paramsAdded(want, sigKey(fn)) || paramsKeptByName(fn, pinnedParams[name], want) {
						run.Notes = append(run.Notes, fmt.Sprintf("contract for %s: parameters were added (%s, was %s); the contract is kept for the parameters it names", name, sigKey(fn), want))
						continue
					}
					specs.Void[name] = true
					if run.Gone == nil {
						run.Gone = map[string]bool{}
					}
					run.Gone[name] = true
					run.Notes = append(run.Notes, fmt.Sprintf("contract for %s: the function's parameter or result types changed (%s, was %s): the contract is void, the function is executed in place at its call sites", name, sigKey(fn), want))
				}
			}
		}
	} else {
		pinnedLoops, pinnedParams, pinnedSigs = map[string]int{}, map[string][]string{}, map[string]string{}
	}

	var smtObls []*Obligation
	usedExt := map[string]bool{}
	// stage 1: functions whose contract serves the property
	// a precondition clause tagged with the property is discharged at the call sites: the callers serve it too
	preProp := map[*ssa.Function]bool{}
	for _, name := range specs.Order {
		if specs.Lookup(name) == nil {
			continue
		}
		for _, c := range specs.Lookup(name).Requires {
			if hasProp(c.Props, prop) && ld.funcs[name] != nil {
				preProp[ld.funcs[name]] = true
			}
		}
	}
	callsPre := func(fn *ssa.Function) bool {
		if fn == nil || len(preProp) == 0 {
			return false
		}
		for _, b := range fn.Blocks {
			for _, in := range b.Instrs {
				if ci, ok := in.(ssa.CallInstruction); ok {
					if cal := ci.Common().StaticCallee(); cal != nil && preProp[cal] {
						return true
					}
				}
			}
		}
		return false
	}
	for _, name := range specs.Order {
		if specs.Void[name] {
			continue
		}
		sp := specs.Lookup(name)
		if !specServes(sp, prop) && !callsPre(ld.funcs[name]) {
			continue
		}
		if sp.Trusted {
			run.Trusted[name] = sp.TrustNote
			continue
		}
		fn := ld.funcs[name]
		if fn == nil {
			// the function under contract is gone: its obligations of the baseline are reported as missing
			run.Notes = append(run.Notes, fmt.Sprintf("contract for %s: no such function in the working tree (its obligations are void; its former callers are checked against their own contracts)", name))
			if run.Gone == nil {
				run.Gone = map[string]bool{}
			}
			run.Gone[name] = true
			continue
		}
		run.Funcs = append(run.Funcs, name)
		e := newExec(ld, specs)
		if run.LoopCounts == nil {
			run.LoopCounts = map[string]int{}
		}
		run.LoopCounts[name] = len(e.analyzeLoops(fn, nil))
		if run.ParamNames == nil {
			run.ParamNames = map[string][]string{}
		}
		var pn []string
		for _, p := range fn.Params {
			pn = append(pn, p.Name())
		}
		run.ParamNames[name] = pn
		if run.Sigs == nil {
			run.Sigs = map[string]string{}
		}
		run.Sigs[name] = sigKey(fn)
		func() {
			// a construct that makes the executor itself fail is outside the verified subset, like any other
			// unsupported construct: a failed obligation of this function, the other functions are still decided
			defer func() {
				if r := recover(); r != nil {
					e.obls = nil
					e.errs = nil
					run.Results = append(run.Results, &ObResult{Name: name + "/outside-verified-subset", Backend: "govc", OK: false, Status: "engine-failure", N: 1, Top: name,
						Note: fmt.Sprintf("the executor failed on this function: %v", r), Detail: firstLines(string(debug.Stack()), 30)})
				}
			}()
			e.verifyFunction(fn, sp)
		}()
		if e.misfit {
			run.Notes = append(run.Notes, e.notes...)
			if run.Gone == nil {
				run.Gone = map[string]bool{}
			}
			run.Gone[name] = true
			continue
		}
		for _, er := range e.errs {
			run.Errs = append(run.Errs, er)
		}
		run.Notes = append(run.Notes, e.notes...)
		for _, o := range e.obls {
			if hasProp(o.Props, prop) {
				smtObls = append(smtObls, o)
			}
		}
		for k := range e.usedExt {
			usedExt[k] = true
		}
	}
	// module-level obligations (SSA scans, template parse tree)
	run.Results = append(run.Results, moduleObligations(ld, specs, prop, repo)...)

	// stage 2
	var s2 *Stage2
	if stage2Props[prop] {
		s2, err = PrepareStage2(repo, filepath.Join(verifDir, "schema"), scenarios(tier), specs)
		if err != nil {
			run.Errs = append(run.Errs, "stage 2: "+err.Error())
		}
		if s2 != nil {
			defer s2.cleanup()
		}
		if s2 != nil && err == nil {
			s2.CheckAll()
			run.Schemas = len(s2.Scen)
			run.Errs = append(run.Errs, s2.errs...)
			n := 0
			for _, o := range s2.obls {
				if hasProp(o.Props, prop) {
					smtObls = append(smtObls, o)
					n++
				}
			}
			for _, t := range s2.tObls {
				if hasProp(t.Props, prop) {
					run.Results = append(run.Results, &ObResult{Name: t.Name, Backend: "go/types", OK: t.OK, Status: okStr(t.OK), N: 1, Detail: t.Detail, Bounded: true})
				}
			}
			if n > 0 {
				run.Funcs = append(run.Funcs, fmt.Sprintf("%d generated functions of the schema mocks (stage 2)", countGenFuncs(s2.obls, prop)))
			}
		}
	}
	dischargeAll(smtObls, timeout)
	for _, a := range aggregate(smtObls) {
		r := aggResult(a)
		run.SolverS += a.TimeS
		run.Results = append(run.Results, r)
	}
	if !rebaseline {
		boundedFallback(run, ld, specs, prop, tier, timeout)
	}
	for k := range usedExt {
		if m, ok := externs[k]; ok {
			run.Trusted[k] = m.Assume
		}
	}
	if !rebaseline {
		// stage-1 counterexamples over strings: run the real function on the model's inputs
		for _, r := range run.Results {
			if r.OK || strings.HasPrefix(r.Name, "gen[") || (r.Status != "sat" && r.Status != "unknown" && r.Status != "timeout") {
				continue
			}
			fn := r.Name
			if i := strings.Index(fn, "/"); i >= 0 {
				fn = fn[:i]
			}
			if ok, clean, report := replayStrings3(repo, fn, r.Output, r.File); report != "" {
				if ok {
					r.Detail += "\nREPLAYED: the real function violates the clause (failing input listed below: the solver model or an input derived from the constants of the failed query)\n" + report
				} else {
					r.Detail += "\nreplay attempted, not reproduced:\n" + report
					if clean && strings.Contains(r.Name, "/post:") {
						// the refutation does not replay: the model depends on a dependency that the proof abstracts
						// (an uninterpreted library function, an unconstrained global). Only refutations that replay on
						// the real code are trusted; the clause is reported as tested on the candidate inputs, not proved.
						r.OK = true
						r.Bounded = true
						r.Note = "refutation not reproduced"
						note := fmt.Sprintf("refutation not reproduced: %s has a solver model that the real function does not confirm, and the real function agrees with the independent oracle on every candidate input (the model's, the constants of the query and their case variants); reported as tested, not proved", r.Name)
						run.Fallback = append(run.Fallback, note)
						run.Notes = append(run.Notes, note)
						fmt.Printf("  note: %s\n", note)
					}
				}
			}
		}
	}
	if s2 != nil && !rebaseline {
		replayStage2(run, s2)
		if os.Getenv("GOVC_REPLAY_ALL") != "" {
			// self-test of the replay harness: on a tree where everything is proved, no conformance test may fail
			seen := map[*mockInfo]bool{}
			for _, mi := range s2.genIndex {
				if seen[mi] || len(mi.methods) == 0 {
					continue
				}
				seen[mi] = true
				rr := s2.replayMock(mi)
				fmt.Printf("replay-selftest %s %s ran=%v failed=%v\n", mi.sc.flagString()+";"+strings.Join(mi.sc.Args, "+"), mi.mockName, rr.Ran, rr.Failed)
				if !rr.Ran || len(rr.Failed) > 0 {
					fmt.Println(firstLines(rr.Output, 25))
				}
			}
		}
	}
	if tier == "thorough" && !rebaseline && os.Getenv("VERIF_REPO") == "" {
		mustFailCorpus(run, repo)
		mustPassCorpus(run, repo)
	}
	return finishCheck(run, rebaseline)
}

func aggResult(a *AggOb) *ObResult {
	r := &ObResult{Name: a.Name, N: a.N, TimeS: a.TimeS, OK: len(a.Failed) == 0, Status: "unsat", Bounded: strings.HasPrefix(a.Name, "gen["), Top: a.Top}
	best := ""
	bn := 0
	for s, n := range a.Solvers {
		if n > bn {
			best, bn = s, n
		}
	}
	r.Backend = best
	if len(a.Failed) > 0 {
		f := a.Failed[0]
		r.Status = f.Res.Status
		r.File = f.Res.File
		r.Output = f.Res.Output
		r.Note = f.Note
		r.Detail = "path " + f.Path
		if f.Res.Solver != "" {
			r.Backend = f.Res.Solver
		}
	}
	return r
}

func obFn(name string) string {
	if i := strings.Index(name, "/"); i >= 0 {
		return name[:i]
	}
	return ""
}

var loopObRe = regexp.MustCompile(`/loop\d+/`)

// contractKind: obligations that state what the function under contract guarantees to its callers.
// They must exist and hold on every tree. Obligations about individual operations (safe:, call-pre:),
// loop cuts (loopN/...) and per-call termination measures exist only as long as the operation, loop or
// call exists in the code.
func contractKind(name string) bool {
	rest := name
	if i := strings.Index(name, "/"); i >= 0 {
		rest = name[i+1:]
	}
	// (frame:<class> obligations exist per heap class the function touches: a class it no longer touches needs none)
	return strings.HasPrefix(rest, "post:") || strings.HasPrefix(rest, "lemma:") || strings.HasPrefix(rest, "lemma-pre:") || rest == "effects-declared" || rest == "functional" || rest == "cover:pre" || rest == "cover:return"
}

// boundedFallback: when the deductive proof of a function under contract does not go through on the
// current code (an invariant no longer fits, a loop moved into a helper, ...), that alone says nothing
// about the property: the contract's invariants are proof artefacts. The function is then re-checked
// against the same contract by bounded symbolic execution of the real code: every loop unrolled up to K
// iterations, no invariant assumed, the invariants that can still be evaluated asserted as facts. If every
// obligation holds within the bound, the function is reported as bounded (not proved) and raises no alarm;
// if one fails, the failures stand as violations.
func boundedFallback(run *CheckRun, ld *Loaded, specs *SpecDB, prop, tier string, timeout int) {
	K := 3
	if tier == "thorough" {
		K = 4
	}
	if k, err := strconv.Atoi(os.Getenv("GOVC_K")); err == nil && k > 0 {
		K = k
	}
	base := loadBaseline()
	pinnedLoops = map[string]int{}
	for _, kv := range base["#loops"] {
		if i := strings.LastIndex(kv, "="); i > 0 {
			n, _ := strconv.Atoi(kv[i+1:])
			pinnedLoops[kv[:i]] = n
		}
	}
	kfs := loadKnownFindings()
	isKF := func(name string) bool {
		for i := range kfs {
			if kfs[i].Property == prop && kfs[i].Obligation == name {
				return true
			}
		}
		return false
	}
	have := map[string]bool{}
	for _, r := range run.Results {
		have[r.Name] = true
	}
	need := map[string][]string{}
	for _, r := range run.Results {
		if r.OK || isKF(r.Name) || r.Top == "" {
			continue
		}
		if sp := specs.Lookup(r.Top); sp != nil && !sp.Trusted && ld.funcs[r.Top] != nil {
			need[r.Top] = append(need[r.Top], r.Name+" ["+r.Status+"]")
		}
	}
	for _, name := range base[prop] {
		if have[name] || !contractKind(name) {
			continue
		}
		f := obFn(name)
		if sp := specs.Lookup(f); sp != nil && !sp.Trusted && ld.funcs[f] != nil {
			need[f] = append(need[f], name+" [missing]")
		}
	}
	callPreRe := regexp.MustCompile(`/call-pre:(.+):[^:]*$`)
	for _, f := range sortedKeys(need) {
		sp := specs.Lookup(f)
		var e *Exec
		var aggs []*AggOb
		var got map[string]bool
		var bad []string
		inlined := map[string]bool{}
		for attempt := 0; attempt < 2; attempt++ {
			e = newExec(ld, specs)
			e.bounded = K
			e.forceInline = inlined
			func() {
				defer func() {
					if r := recover(); r != nil {
						e.obls = nil
						e.errs = []string{fmt.Sprintf("the executor failed: %v", r)}
					}
				}()
				e.verifyFunction(ld.funcs[f], sp)
			}()
			if len(e.errs) > 0 {
				break
			}
			var obls []*Obligation
			for _, o := range e.obls {
				if hasProp(o.Props, prop) {
					obls = append(obls, o)
				}
			}
			dischargeAll(obls, timeout)
			aggs = aggregate(obls)
			got = map[string]bool{}
			bad = nil
			more := false
			for _, a := range aggs {
				got[a.Name] = true
				if len(a.Failed) > 0 && !isKF(a.Name) {
					bad = append(bad, a.Name+" ["+a.Failed[0].Res.Status+"]")
					// a callee whose precondition cannot be established here: the precondition is part of the modular
					// proof, not of the property. Second attempt: its body is executed in place instead.
					if m := callPreRe.FindStringSubmatch(a.Name); m != nil && !inlined[m[1]] && ld.funcs[m[1]] != nil && len(ld.funcs[m[1]].Blocks) > 0 && !taggedRequires(specs, m[1], a.Name) {
						inlined[m[1]] = true
						more = true
					}
				}
			}
			if len(bad) == 0 || !more {
				break
			}
		}
		if len(e.errs) > 0 {
			run.Notes = append(run.Notes, fmt.Sprintf("%s: bounded fallback not possible: %s", f, strings.Join(e.errs, "; ")))
			continue
		}
		// everything the contract promises must have been re-established within the bound
		for _, name := range base[prop] {
			if obFn(name) == f && contractKind(name) && !got[name] {
				bad = append(bad, name+" [not generated]")
			}
		}
		for _, r := range run.Results {
			if r.Top == f && !r.OK && contractKind(r.Name) && !got[r.Name] {
				bad = append(bad, r.Name+" [not generated]")
			}
		}
		if len(bad) > 0 {
			for _, r := range run.Results {
				if r.Top == f && !r.OK {
					r.Detail += fmt.Sprintf("\nbounded re-check of %s (at most %d loop iterations per path, no invariants) fails as well: %s", f, K, strings.Join(firstN(bad, 6), ", "))
				}
			}
			continue
		}
		var kept []*ObResult
		for _, r := range run.Results {
			if r.Top != f {
				kept = append(kept, r)
			}
		}
		note := fmt.Sprintf("bounded fallback: the deductive proof of %s does not go through on the current code (%s); the same contract holds on every path with at most %d loop iterations in total (%d longer paths pruned)", f, strings.Join(firstN(need[f], 4), ", "), K, e.boundHits)
		if len(inlined) > 0 {
			note += fmt.Sprintf("; callees executed in place because their precondition could not be established at the call: %s", strings.Join(sortedKeys(inlined), ", "))
		}
		for _, a := range aggs {
			r := aggResult(a)
			r.Bounded = true
			r.Note = "bounded fallback"
			run.SolverS += a.TimeS
			kept = append(kept, r)
		}
		run.Results = kept
		run.Fallback = append(run.Fallback, note)
		run.Notes = append(run.Notes, note)
		run.Notes = append(run.Notes, e.notes...)
		fmt.Printf("  note: %s\n", note)
	}
}

// pinnedLoops: number of loops each function under contract had when the baseline was taken; the contract's
// loop clauses are keyed by loop ordinal, so they are anchored only while that number is unchanged
var pinnedLoops map[string]int

// pinnedParams: parameter names (receiver first) each function under contract had when the baseline was taken.
// Contracts name parameters as the pinned tree does; they are bound by position, so that renaming a
// parameter in the code does not detach the contract.
var pinnedParams map[string][]string

// pinnedSigs: parameter and result types (receiver included) each function under contract had when the baseline
// was taken. A contract speaks about values of those types: if the types changed, it is not a contract of this
// function any more (void: the function is executed in place wherever it is called).
var pinnedSigs map[string]string

// sameButReceiver: the two signature keys differ only in whether the receiver (first parameter of a method) is
// a value or a pointer to it. The contract then still speaks about the same values; a receiver that used to be
// a value cannot have been nil at any call (the call copied it), so the pointer is assumed non-nil.
func sameButReceiver(fn *ssa.Function, pinned, cur string) bool {
	if fn.Signature.Recv() == nil || pinned == cur {
		return false
	}
	strip := func(k string) string { return strings.TrimPrefix(k, "*") }
	return strip(pinned) == strip(cur) && strings.HasPrefix(cur, "*") && !strings.HasPrefix(pinned, "*")
}

var recvNowPointer = map[string]bool{}

// paramsAdded: the current signature has the pinned parameters (same types, same order) followed by new ones,
// and the same results. The contract still speaks about the parameters it names (bound by position).
func paramsAdded(pinned, cur string) bool {
	pi, ci := strings.LastIndex(pinned, "->"), strings.LastIndex(cur, "->")
	if pi < 0 || ci < 0 || pinned[pi:] != cur[ci:] {
		return false
	}
	pp, cp := pinned[:pi], cur[:ci]
	return len(cp) > len(pp) && (pp == "" || strings.HasPrefix(cp, pp+","))
}

func sigKey(fn *ssa.Function) string {
	var ps []string
	for _, p := range fn.Params {
		ps = append(ps, typeKey(p.Type()))
	}
	return strings.Join(ps, ",") + "->" + typeKey(fn.Signature.Results())
}

func loadPinnedTables() {
	base := loadBaseline()
	pinnedLoops = map[string]int{}
	for _, kv := range base["#loops"] {
		if i := strings.LastIndex(kv, "="); i > 0 {
			n, _ := strconv.Atoi(kv[i+1:])
			pinnedLoops[kv[:i]] = n
		}
	}
	pinnedFields = map[string][]string{}
	for _, kv := range base["#fields"] {
		if i := strings.Index(kv, "="); i > 0 && kv[i+1:] != "" {
			pinnedFields[kv[:i]] = strings.Split(kv[i+1:], ",")
		}
	}
	pinnedSigs = map[string]string{}
	for _, kv := range base["#sig"] {
		if i := strings.Index(kv, "="); i > 0 {
			pinnedSigs[kv[:i]] = kv[i+1:]
		}
	}
	pinnedParams = map[string][]string{}
	for _, kv := range base["#params"] {
		if i := strings.Index(kv, "="); i > 0 {
			if kv[i+1:] == "" {
				pinnedParams[kv[:i]] = nil
			} else {
				pinnedParams[kv[:i]] = strings.Split(kv[i+1:], ",")
			}
		}
	}
}

// bindParams: name -> value for the parameters of fn, under their current names and (taking precedence)
// under the names the contract was written against.
func bindParams(fn *ssa.Function, get func(i int, p *ssa.Parameter) (SV, bool), vars map[string]SV) {
	for i, p := range fn.Params {
		if v, ok := get(i, p); ok {
			vars[p.Name()] = v
		}
	}
	if pn, ok := pinnedParams[fnName(fn)]; ok && len(pn) <= len(fn.Params) && !namesPresent(pn, fn) {
		for i, p := range fn.Params {
			if i >= len(pn) {
				break
			}
			if v, ok := get(i, p); ok && pn[i] != "" && pn[i] != "_" {
				vars[pn[i]] = v
			}
		}
	}
}

// namesPresent: every parameter name of the pinned function is still a parameter name (binding by name is then
// right even if parameters were inserted or reordered; positional binding is for renamed parameters)
func namesPresent(pn []string, fn *ssa.Function) bool {
	cur := map[string]bool{}
	for _, p := range fn.Params {
		cur[p.Name()] = true
	}
	for _, n := range pn {
		if n != "" && n != "_" && !cur[n] {
			return false
		}
	}
	return true
}

// paramsKeptByName: the pinned parameters are all still there under their names with their types (others may
// have been inserted anywhere) and the results are unchanged.
func paramsKeptByName(fn *ssa.Function, pinnedNames []string, pinnedSig string) bool {
	ri := strings.LastIndex(pinnedSig, "->")
	if ri < 0 || pinnedSig[ri+2:] != typeKey(fn.Signature.Results()) {
		return false
	}
	var ptypes []string
	if pinnedSig[:ri] != "" {
		ptypes = splitTopLevel(pinnedSig[:ri])
	}
	if len(ptypes) != len(pinnedNames) || len(pinnedNames) >= len(fn.Params) {
		return false
	}
	cur := map[string]string{}
	for _, p := range fn.Params {
		cur[p.Name()] = typeKey(p.Type())
	}
	for i, n := range pinnedNames {
		if n == "" || n == "_" || cur[n] != ptypes[i] {
			return false
		}
	}
	return true
}

// splitTopLevel splits a comma-separated list of type keys at the commas that are not nested in brackets.
func splitTopLevel(s string) []string {
	var out []string
	depth, start := 0, 0
	for i, r := range s {
		switch r {
		case '(', '[', '{':
			depth++
		case ')', ']', '}':
			depth--
		case ',':
			if depth == 0 {
				out = append(out, s[start:i])
				start = i + 1
			}
		}
	}
	return append(out, s[start:])
}

// taggedRequires: the call-precondition obligation belongs to a clause of the callee that is tagged with
// properties of its own (requires{C11,C14} ...): such a clause states a condition the property needs at that
// call, it is not a device of the modular proof, and the callee is not executed in place to get around it.
func taggedRequires(specs *SpecDB, callee, obName string) bool {
	sp := specs.Lookup(callee)
	if sp == nil {
		return false
	}
	label := obName[strings.LastIndex(obName, ":")+1:]
	for i, c := range sp.Requires {
		l := c.Label
		if l == "" {
			l = fmt.Sprintf("#%d", i+1)
		}
		if l == label && c.Tagged {
			return true
		}
	}
	return false
}

func firstN(xs []string, n int) []string {
	if len(xs) > n {
		return append(append([]string{}, xs[:n]...), fmt.Sprintf("... (%d more)", len(xs)-n))
	}
	return xs
}

// mustFailCorpus (thorough tier): every seeded change recorded for this property under
// /verif/seeded is applied to a scratch copy of the repository and the quick check is run on the
// copy; it must report a violation. A miss is a defect of the machinery, reported as an engine
// message (UNDECIDED), never as a violation of the property.
func mustFailCorpus(run *CheckRun, repo string) {
	dirs, _ := filepath.Glob(filepath.Join(verifDir, "seeded", run.Prop+"-*"))
	sort.Strings(dirs)
	self, _ := os.Executable()
	for _, d := range dirs {
		patch := filepath.Join(d, "patch.diff")
		if _, err := os.Stat(patch); err != nil {
			continue
		}
		tmp, err := os.MkdirTemp("", "verif-mustfail-")
		if err != nil {
			continue
		}
		cp := exec.Command("git", "-C", repo, "worktree", "add", "--detach", "-q", filepath.Join(tmp, "repo"), "HEAD")
		if out, err := cp.CombinedOutput(); err != nil {
			run.MustFail = append(run.MustFail, fmt.Sprintf("%s: cannot create scratch copy: %v %s", filepath.Base(d), err, out))
			os.RemoveAll(tmp)
			continue
		}
		scratch := filepath.Join(tmp, "repo")
		ap := exec.Command("git", "-C", scratch, "apply", patch)
		res := ""
		if out, err := ap.CombinedOutput(); err != nil {
			res = fmt.Sprintf("%s: patch does not apply to the current tree (%s)", filepath.Base(d), strings.TrimSpace(firstLines(string(out), 2)))
		} else {
			c := exec.Command(self, "check", run.Prop, "quick")
			c.Env = append(goEnv(), "VERIF_REPO="+scratch, "VERIF_EVIDENCE_DIR="+filepath.Join(tmp, "evidence"), "VERIF_REPLAY_DIR="+filepath.Join(tmp, "replay"))
			out, _ := c.CombinedOutput()
			code := c.ProcessState.ExitCode()
			nviol := strings.Count(string(out), "VIOLATION property=")
			res = fmt.Sprintf("%s: exit %d, %d violation lines", filepath.Base(d), code, nviol)
			if code != 1 || nviol == 0 {
				run.Errs = append(run.Errs, fmt.Sprintf("must-fail corpus: seeded change %s is not reported by this check any more (exit %d)", filepath.Base(d), code))
			}
		}
		run.MustFail = append(run.MustFail, res)
		exec.Command("git", "-C", repo, "worktree", "remove", "--force", scratch).Run()
		os.RemoveAll(tmp)
	}
	exec.Command("git", "-C", repo, "worktree", "prune").Run()
}

// mustPassCorpus (thorough tier): every behaviour-preserving change recorded under /verif/benign is applied
// to a scratch copy and the quick check is run on the copy; it must stay quiet. Outcomes are recorded in
// the evidence (an alarm here is a false alarm of the machinery, listed as an engine note, and does not
// change the verdict on the tree under test).
func mustPassCorpus(run *CheckRun, repo string) {
	dirs, _ := filepath.Glob(filepath.Join(verifDir, "benign", "*"))
	sort.Strings(dirs)
	self, _ := os.Executable()
	for _, d := range dirs {
		patch := filepath.Join(d, "patch.diff")
		if _, err := os.Stat(patch); err != nil {
			continue
		}
		tmp, err := os.MkdirTemp("", "verif-mustpass-")
		if err != nil {
			continue
		}
		scratch := filepath.Join(tmp, "repo")
		if out, err := exec.Command("git", "-C", repo, "worktree", "add", "--detach", "-q", scratch, "HEAD").CombinedOutput(); err != nil {
			run.MustPass = append(run.MustPass, fmt.Sprintf("%s: cannot create scratch copy: %v %s", filepath.Base(d), err, out))
			os.RemoveAll(tmp)
			continue
		}
		res := ""
		if out, err := exec.Command("git", "-C", scratch, "apply", patch).CombinedOutput(); err != nil {
			res = fmt.Sprintf("%s: patch does not apply to the current tree (%s)", filepath.Base(d), strings.TrimSpace(firstLines(string(out), 2)))
		} else {
			c := exec.Command(self, "check", run.Prop, "quick")
			c.Env = append(goEnv(), "VERIF_REPO="+scratch, "VERIF_EVIDENCE_DIR="+filepath.Join(tmp, "evidence"), "VERIF_REPLAY_DIR="+filepath.Join(tmp, "replay"))
			out, _ := c.CombinedOutput()
			code := c.ProcessState.ExitCode()
			res = fmt.Sprintf("%s: exit %d, %d violation lines, %d functions through the bounded fallback", filepath.Base(d), code,
				strings.Count(string(out), "VIOLATION property="), strings.Count(string(out), "note: bounded fallback"))
			if code != 0 {
				run.Notes = append(run.Notes, fmt.Sprintf("must-pass corpus: behaviour-preserving change %s raises an alarm (exit %d): a false alarm of the machinery", filepath.Base(d), code))
			}
		}
		run.MustPass = append(run.MustPass, res)
		exec.Command("git", "-C", repo, "worktree", "remove", "--force", scratch).Run()
		os.RemoveAll(tmp)
	}
	exec.Command("git", "-C", repo, "worktree", "prune").Run()
}

func okStr(b bool) string {
	if b {
		return "holds"
	}
	return "fails"
}

func countGenFuncs(obls []*Obligation, prop string) int {
	seen := map[string]bool{}
	for _, o := range obls {
		if hasProp(o.Props, prop) {
			k := o.Name
			if i := strings.LastIndex(k, "/"); i >= 0 {
				k = k[:i]
			}
			seen[k] = true
		}
	}
	return len(seen)
}

func specServes(sp *FuncSpec, prop string) bool {
	if hasProp(sp.Props, prop) || hasProp(sp.SafetyProps, prop) {
		return true
	}
	for _, c := range sp.Ensures {
		if hasProp(c.Props, prop) {
			return true
		}
	}
	for _, c := range sp.Requires {
		if hasProp(c.Props, prop) {
			return true
		}
	}
	for _, l := range sp.Loops {
		for _, c := range l.Invariants {
			if hasProp(c.Props, prop) {
				return true
			}
		}
	}
	return false
}

func finishCheck(run *CheckRun, rebaseline bool) int {
	prop := run.Prop
	base := loadBaseline()
	kfs := loadKnownFindings()
	sort.SliceStable(run.Results, func(i, j int) bool { return run.Results[i].Name < run.Results[j].Name })
	have := map[string]*ObResult{}
	for _, r := range run.Results {
		have[r.Name] = r
		run.ByBackend[r.Backend] += r.N
	}
	if rebaseline {
		var names []string
		for _, r := range run.Results {
			if r.OK {
				names = append(names, r.Name)
			} else {
				fmt.Printf("  not in baseline (fails: %s): %s\n     %s\n", r.Status, r.Name, firstLines(r.Note+" "+r.Detail, 6))
			}
		}
		for _, e := range run.Errs {
			fmt.Println("  ERROR", e)
		}
		base[prop] = names
		lc := map[string]int{}
		for _, kv := range base["#loops"] {
			if i := strings.LastIndex(kv, "="); i > 0 {
				n, _ := strconv.Atoi(kv[i+1:])
				lc[kv[:i]] = n
			}
		}
		for f, n := range run.LoopCounts {
			lc[f] = n
		}
		var lcs []string
		for _, f := range sortedKeys(lc) {
			lcs = append(lcs, fmt.Sprintf("%s=%d", f, lc[f]))
		}
		base["#loops"] = lcs
		pm := map[string]string{}
		for _, kv := range base["#params"] {
			if i := strings.Index(kv, "="); i > 0 {
				pm[kv[:i]] = kv[i+1:]
			}
		}
		for f, ns := range run.ParamNames {
			pm[f] = strings.Join(ns, ",")
		}
		var pms []string
		for _, f := range sortedKeys(pm) {
			pms = append(pms, f+"="+pm[f])
		}
		base["#params"] = pms
		sg := map[string]string{}
		for _, kv := range base["#sig"] {
			if i := strings.Index(kv, "="); i > 0 {
				sg[kv[:i]] = kv[i+1:]
			}
		}
		for f, v := range run.Sigs {
			sg[f] = v
		}
		var sgs []string
		for _, f := range sortedKeys(sg) {
			sgs = append(sgs, f+"="+sg[f])
		}
		base["#sig"] = sgs
		if len(run.Fields) > 0 {
			var fl []string
			for _, k := range sortedKeys(run.Fields) {
				fl = append(fl, k+"="+strings.Join(run.Fields[k], ","))
			}
			base["#fields"] = fl
		}
		data, _ := json.MarshalIndent(base, "", " ")
		os.WriteFile(baselineFile, data, 0o644)
		fmt.Printf("baseline %s: %d obligations proved, %d failing\n", prop, len(names), len(run.Results)-len(names))
		return 0
	}
	if len(run.Errs) > 0 {
		for _, e := range run.Errs {
			fmt.Printf("  engine: %s\n", e)
		}
		fmt.Printf("UNDECIDED property=%s reason=the verifier could not generate every obligation (%d messages); this is not a verdict on the property\n", prop, len(run.Errs))
		writeEvidence(run, nil, 0)
		return 2
	}
	violations := 0
	var kfLines []string
	var failed []*ObResult
	isKF := func(name string) *KnownFinding {
		for i := range kfs {
			if kfs[i].Property == prop && kfs[i].Obligation == name {
				return &kfs[i]
			}
		}
		return nil
	}
	for _, r := range run.Results {
		if r.OK {
			continue
		}
		if k := isKF(r.Name); k != nil {
			kfLines = append(kfLines, fmt.Sprintf("KNOWN-FINDING: property=%s %s [%s: %s]", prop, k.What, k.ID, r.Name))
			continue
		}
		failed = append(failed, r)
	}
	// obligations of the baseline that were not generated any more
	for _, name := range base[prop] {
		if _, ok := have[name]; !ok {
			if !strings.HasPrefix(name, "gen[") && !strings.HasPrefix(name, "module/") && !strings.HasPrefix(name, "template/") && !contractKind(name) {
				// an operation, call or loop of the pinned tree that no longer exists cannot fail
				continue
			}
			if f := obFn(name); run.Gone[f] {
				// the function under contract itself no longer exists (inlined away, merged, renamed): what it
				// promised is void; every function that used to call it is checked against its own contract
				continue
			}
			failed = append(failed, &ObResult{Name: name, Status: "missing", Backend: "govc", Note: "obligation proved on the pinned tree is no longer generated from the current source (contract clause, function or emitted function disappeared) " + strings.Join(run.Notes, "; ")})
		}
	}
	for _, l := range kfLines {
		fmt.Println(l)
	}
	os.MkdirAll(filepath.Join(replayRoot(), prop), 0o755)
	// one VIOLATION line per failed contract clause (the same clause usually fails for many
	// generated instances / paths); every failed obligation is listed in the replay file
	groups := map[string][]*ObResult{}
	var gorder []string
	for _, r := range failed {
		k := r.Name
		if strings.HasPrefix(k, "gen[") {
			if i := strings.LastIndex(k, "/"); i >= 0 {
				k = "generated-code" + k[i:]
			}
		}
		if _, ok := groups[k]; !ok {
			gorder = append(gorder, k)
		}
		groups[k] = append(groups[k], r)
	}
	for _, k := range gorder {
		rs := groups[k]
		for i, x := range rs {
			if x.replayed() {
				rs[0], rs[i] = rs[i], rs[0]
				break
			}
		}
		violations++
		path := writeReplay(prop, k, rs)
		suffix := ""
		if !rs[0].replayed() {
			suffix = " no-failing-input-found"
		}
		r := rs[0]
		fmt.Printf("  failed obligation %s (%d instances, first: %s) [%s via %s] %s %s\n", k, len(rs), r.Name, r.Status, r.Backend, r.Note, firstLines(r.Detail, 8))
		fmt.Printf("VIOLATION property=%s replay=%s%s\n", prop, path, suffix)
	}
	// obligations excluded by a known finding are not part of the claim
	var claimed []*ObResult
	for _, r := range run.Results {
		if !r.OK && isKF(r.Name) != nil {
			continue
		}
		claimed = append(claimed, r)
	}
	run.Results = claimed
	writeEvidence(run, kfLines, violations)
	n, d := 0, 0
	for _, r := range run.Results {
		n += r.N
		if r.OK {
			d += r.N
		}
	}
	fmt.Printf("%s %s: %d obligations (%d groups), %d discharged, %d known findings, %d violations, %.1fs\n", prop, run.Tier, n, len(run.Results), d, len(kfLines), violations, time.Since(run.Start).Seconds())
	if violations > 0 {
		return 1
	}
	return 0
}

func replayRoot() string {
	if d := os.Getenv("VERIF_REPLAY_DIR"); d != "" {
		return d
	}
	return filepath.Join(verifDir, "out", "replay")
}

func (r *ObResult) replayed() bool { return strings.Contains(r.Detail, "REPLAYED:") }

func sanitizeFile(s string) string {
	out := strings.Map(func(r rune) rune {
		if r >= 'a' && r <= 'z' || r >= 'A' && r <= 'Z' || r >= '0' && r <= '9' || r == '.' || r == '-' || r == '_' {
			return r
		}
		return '_'
	}, s)
	if len(out) > 150 {
		out = out[:150]
	}
	return out
}

func writeReplay(prop string, group string, rs []*ObResult) string {
	path := filepath.Join(replayRoot(), prop, sanitizeFile(group)+".json")
	r := rs[0]
	var all []map[string]any
	for _, x := range rs {
		all = append(all, map[string]any{"obligation": x.Name, "status": x.Status, "backend": x.Backend, "note": x.Note, "detail": x.Detail, "query_file": x.File})
	}
	doc := map[string]any{
		"property":           prop,
		"failed_clause":      group,
		"obligation":         r.Name,
		"status":             r.Status,
		"backend":            r.Backend,
		"note":               r.Note,
		"detail":             r.Detail,
		"query_file":         r.File,
		"verifier_output":    r.Output,
		"replayed":           r.replayed(),
		"replay_test_source": r.ReplaySrc,
		"failed_obligations": all,
	}
	data, _ := json.MarshalIndent(doc, "", " ")
	os.WriteFile(path, data, 0o644)
	return path
}

func cmdReplay(path string) int {
	data, err := os.ReadFile(path)
	if err != nil {
		fmt.Println(err)
		return 2
	}
	var doc map[string]any
	json.Unmarshal(data, &doc)
	fmt.Printf("obligation: %v\nstatus: %v (%v)\nnote: %v\ndetail: %v\nquery: %v\n", doc["obligation"], doc["status"], doc["backend"], doc["note"], doc["detail"], doc["query_file"])
	if prop, ok := doc["property"].(string); ok {
		fmt.Println("re-running the check of", prop)
		return runCheck(prop, "quick", false)
	}
	return 0
}

func writeEvidence(run *CheckRun, kfLines []string, violations int) {
	n, d, bounded := 0, 0, 0
	var samples []any
	for _, r := range run.Results {
		n += r.N
		if r.OK {
			d += r.N
		}
		if r.Bounded {
			bounded += r.N
		}
	}
	step := len(run.Results)/12 + 1
	for i := 0; i < len(run.Results); i += step {
		r := run.Results[i]
		samples = append(samples, map[string]any{"obligation": r.Name, "paths": r.N, "backend": r.Backend, "status": r.Status, "solver_s": round3(r.TimeS), "query": r.File})
	}
	var trusted []string
	for _, k := range sortedKeys(run.Trusted) {
		trusted = append(trusted, k+": "+run.Trusted[k])
	}
	trusted = append(trusted,
		"A-types: accessors of go/types, go/ast, go/token values are pure, deterministic functions of their receiver and arguments (uninterpreted); results listed as never nil are not nil; Len/Num* >= 0; index accessors need index < length; the type of an interface method is a *types.Signature; the underlying type of a type-parameter constraint is a *types.Interface; a union has at least one term; structural accessors (Elem, Key, At, Params, Results, Field, EmbeddedType, ExplicitMethod, Term, TypeArgs, Type of a Var/Func/Term) yield strictly smaller values (type expressions are finite trees); names of type objects and Basic.String() are non-empty",
		"A-case: strings.ToUpper / strings.ToLower / the package-level strings.Replacer are uninterpreted total functions shared by code and specification; they never map a non-empty string to the empty string",
		"A-sync (stage 2): sync.RWMutex is a correct reader/writer lock; holding the lock that protects a location, in the required mode, for every access implies data-race freedom and atomicity of the critical section (the thread-local lock-permission discipline is what is proved)",
		"A-tmpl (stage 2): text/template renders moqTemplate as documented; the schema packages exercise every control signature of the template and the template-uniformity obligation carries the generalisation to other arities",
		"A-go: go/ssa (x/tools v0.30.0) is a faithful model of the Go compiler for the instruction subset handled",
		"A-int: integers are mathematical (lengths, indices and counters never overflow)",
		"A-solver: z3 4.8.12 / z3 5.1.0 / cvc5 1.0.3 answer unsat only for unsatisfiable queries",
		"govc: the verification-condition generator itself (/verif/govc) is trusted")
	sort.Strings(run.Funcs)
	cov := map[string]any{
		"obligations":              n,
		"discharged":               d,
		"checker_cmd":              fmt.Sprintf("/verif/check %s %s", run.Prop, run.Tier),
		"trusted_base":             trusted,
		"samples":                  samples,
		"functions_under_contract": run.Funcs,
		"obligation_groups":        len(run.Results),
		"by_backend":               run.ByBackend,
		"solver_time_s":            round3(run.SolverS),
		"bounded_obligations":      bounded,
		"bounded_note":             "obligations named gen[...] are proved on the functions moq emits for the schema packages (/verif/schema): all values, states and schedules, but arity-bounded (<= 6 parameters, <= 2 results, <= 10 methods); generalisation to other arities rests on the template-uniformity obligations",
		"schema_scenarios":         run.Schemas,
		"known_findings":           kfLines,
		"engine_messages":          append(append([]string{}, run.Errs...), run.Notes...),
		"must_fail_corpus":         run.MustFail,
		"must_pass_corpus":         run.MustPass,
		"bounded_fallback":         run.Fallback,
	}
	if n == 0 {
		cov["explanation"] = "no obligation could be generated on this run"
		cov["evaluations"] = 1
		cov["distinct_nontrivial"] = 0
	}
	ev := map[string]any{
		"property_id": run.Prop,
		"tier":        run.Tier,
		"seed":        run.Seed,
		"level":       "proof",
		"coverage":    cov,
		"assumptions": append(append([]string{}, run.Assume...), "see coverage.trusted_base for the assumed contracts on dependencies used by this run"),
		"wall_s":      round3(time.Since(run.Start).Seconds()),
		"violations":  violations,
	}
	evDir := filepath.Join(verifDir, "evidence")
	if d := os.Getenv("VERIF_EVIDENCE_DIR"); d != "" {
		evDir = d
	}
	os.MkdirAll(evDir, 0o755)
	data, _ := json.MarshalIndent(ev, "", " ")
	os.WriteFile(filepath.Join(evDir, run.Prop+".json"), data, 0o644)
}

func round3(x float64) float64 { return float64(int(x*1000+0.5)) / 1000 }

// replayStage2 tries to confirm failed obligations on emitted code by running the generated mock.
func replayStage2(run *CheckRun, s2 *Stage2) {
	if os.Getenv("GOVC_DEBUG") != "" {
		fmt.Fprintf(os.Stderr, "replayStage2: %d results, %d indexed functions\n", len(run.Results), len(s2.genIndex))
	}
	done := map[*mockInfo]*ReplayResult{}
	n := 0
	for _, r := range run.Results {
		if r.OK || !strings.HasPrefix(r.Name, "gen[") {
			continue
		}
		i := strings.LastIndex(r.Name, "/")
		if i < 0 {
			continue
		}
		prefix, clause := r.Name[:i], r.Name[i+1:]
		if k := strings.Index(clause, ":"); k >= 0 && strings.HasPrefix(clause, "safe:") {
			clause = "no-runtime-panic"
		}
		mi := s2.genIndex[prefix]
		sub := clauseSubtest[clause]
		if mi == nil || sub == "" {
			if os.Getenv("GOVC_DEBUG") != "" {
				fmt.Fprintf(os.Stderr, "replay: no target for %s (mock %v, subtest %q)\n", r.Name, mi != nil, sub)
			}
			continue
		}
		rr, ok := done[mi]
		if !ok {
			if n >= 3 {
				continue
			}
			n++
			rr = s2.replayMock(mi)
			done[mi] = rr
			if os.Getenv("GOVC_DEBUG") != "" {
				fmt.Fprintf(os.Stderr, "replay %s %s: ran=%v failed=%v\n%s\n", mi.sc.flagString(), mi.mockName, rr.Ran, rr.Failed, firstLines(rr.Output, 30))
			}
		}
		if rr.Ran && rr.Failed[sub] {
			r.Detail += "\nREPLAYED: " + sub + " fails on the mock generated by the real moq (" + rr.Cmd + "):\n" + excerpt(rr.Output, sub)
			r.ReplaySrc = rr.TestFile
		} else if rr.Ran {
			r.Detail += "\nreplay attempted (" + sub + "): the conformance test did not reproduce a failure"
		} else if os.Getenv("GOVC_DEBUG") != "" {
			fmt.Fprintf(os.Stderr, "replay did not run: %s\n", rr.Output)
		}
	}
}

func excerpt(out, sub string) string {
	var keep []string
	for _, l := range strings.Split(out, "\n") {
		if strings.Contains(l, "zz_replay") || strings.Contains(l, "--- FAIL") || strings.Contains(l, "DATA RACE") || strings.Contains(l, "panic") {
			keep = append(keep, l)
		}
		if len(keep) > 25 {
			break
		}
	}
	return strings.Join(keep, "\n")
}
