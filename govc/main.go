package main

import (
	"runtime/debug"
	"golang.org/x/tools/go/ssa"
	"strconv"
	"flag"
	"fmt"
	"os"
	"sort"
	"strings"
)

var effectSpecs = map[string]func(e *Exec, st *State, name string, sp *FuncSpec, panicked bool){}

func usage() {
	fmt.Fprintln(os.Stderr, "usage: govc fn <name>... | check <property> [quick|thorough] | list")
	os.Exit(2)
}

func main() {
	if len(os.Args) < 2 {
		usage()
	}
	switch os.Args[1] {
	case "fn":
		fs := flag.NewFlagSet("fn", flag.ExitOnError)
		verbose := fs.Bool("v", false, "print failing queries")
		timeout := fs.Int("t", 10, "solver timeout (s)")
		repo := fs.String("repo", "/repo", "repository")
		fs.Parse(os.Args[2:])
		os.Exit(cmdFn(*repo, fs.Args(), *verbose, *timeout))
	case "loops":
		ld, specs, err := loadRepo("/repo")
		if err != nil {
			fmt.Println(err)
			os.Exit(2)
		}
		for _, name := range specs.Order {
			fn := ld.funcs[name]
			sp := specs.Lookup(name)
			if fn == nil || sp.Trusted {
				continue
			}
			e := newExec(ld, specs)
			for _, li := range e.analyzeLoops(fn, sp) {
				kind := "plain"
				for _, in := range li.header.Instrs {
					if phi, ok := in.(*ssa.Phi); ok && phi.Comment == "rangeindex" {
						kind = "range-slice"
					}
				}
				for blk := range li.body {
					for _, in := range blk.Instrs {
						if _, ok := in.(*ssa.Next); ok {
							kind = "range-map/string"
						}
					}
				}
				dec := li.spec != nil && li.spec.Decreases != nil
				unr := li.spec != nil && li.spec.Unroll > 0
				fmt.Printf("%-55s loop%d %-16s decreases=%v unroll=%v autoBounds=%d\n", name, li.ordinal, kind, dec, unr, len(e.autoBounds(li, li.header)))
			}
		}
		os.Exit(0)
	case "stage2":
		os.Exit(cmdStage2(os.Args[2:]))
	case "list":
		ld, err := Load("/repo", "verif", "./...")
		if err != nil {
			fmt.Println(err)
			os.Exit(2)
		}
		var ns []string
		for n := range ld.funcs {
			ns = append(ns, n)
		}
		sort.Strings(ns)
		fmt.Println(strings.Join(ns, "\n"))
	default:
		os.Exit(cmdMain(os.Args[1:]))
	}
}

func loadRepo(repo string) (*Loaded, *SpecDB, error) {
	ld, err := Load(repo, "verif", "./...")
	if err != nil {
		return nil, nil, err
	}
	files := specFilesIn(repo)
	specs, err := LoadSpecs(files)
	if err != nil {
		return nil, nil, err
	}
	return ld, specs, nil
}

func (l *Loaded) resolve(name string) interface{ String() string } { return nil }

func cmdFn(repo string, names []string, verbose bool, timeout int) int {
	ld, specs, err := loadRepo(repo)
	if err != nil {
		fmt.Println("load:", err)
		return 2
	}
	ld.bindSpecial()
	loadPinnedTables()
	for _, name := range specs.Order {
		if fn := ld.funcs[name]; fn != nil {
			if want, ok := pinnedSigs[name]; ok && want != sigKey(fn) {
				if sameButReceiver(fn, want, sigKey(fn)) {
					recvNowPointer[name] = true
					continue
				}
				if paramsAdded(want, sigKey(fn)) || paramsKeptByName(fn, pinnedParams[name], want) {
					continue
				}
				specs.Void[name] = true
				fmt.Printf("%s: signature changed, contract void\n", name)
			}
		}
	}
	if len(names) == 0 {
		names = specs.Order
	}
	rc := 0
	for _, name := range names {
		sp := specs.Lookup(name)
		if sp == nil {
			fmt.Printf("%s: no contract\n", name)
			rc = 2
			continue
		}
		if sp.Trusted {
			fmt.Printf("%s: trusted (%s)\n", name, sp.TrustNote)
			continue
		}
		fn := ld.funcs[name]
		if fn == nil {
			fmt.Printf("%s: function not found\n", name)
			rc = 2
			continue
		}
		e := newExec(ld, specs)
		if k, _ := strconv.Atoi(os.Getenv("GOVC_BOUNDED")); k > 0 {
			e.bounded = k
		}
		e.verifyFunction(fn, sp)
		if e.bounded > 0 {
			fmt.Printf("  bounded mode K=%d: %d obligations, %d paths pruned at the bound\n", e.bounded, len(e.obls), e.boundHits)
		}
		if os.Getenv("GOVC_NOSOLVE") != "" {
			continue
		}
		dischargeAll(e.obls, timeout)
		for _, er := range e.errs {
			fmt.Printf("  ERROR %s\n", er)
			rc = 2
		}
		for _, a := range aggregate(e.obls) {
			status := "ok"
			if len(a.Failed) > 0 {
				status = "FAIL(" + a.Failed[0].Res.Status + ")"
				if rc == 0 {
					rc = 1
				}
			}
			fmt.Printf("  %-70s x%-3d %s %.2fs %v\n", a.Name, a.N, status, a.TimeS, a.Props)
			if debugPaths {
				for _, f := range a.Failed {
					fmt.Printf("    FAILED PATH %s -> %s (%s)\n", f.Path, f.Res.Status, f.Res.File)
				}
			}
			if verbose && len(a.Failed) > 0 {
				f := a.Failed[0]
				fmt.Printf("    path %s file %s\n    %s\n", f.Path, f.Res.File, firstLines(f.Res.Output, 40))
			}
		}
	}
	return rc
}

func firstLines(s string, n int) string {
	ls := strings.Split(s, "\n")
	if len(ls) > n {
		ls = ls[:n]
	}
	return strings.Join(ls, "\n    ")
}


func cmdStage2(args []string) int {
	fs := flag.NewFlagSet("stage2", flag.ExitOnError)
	verbose := fs.Bool("v", false, "print failing queries")
	keep := fs.Bool("keep", false, "keep scratch dir")
	repo := fs.String("repo", "/repo", "repository")
	timeout := fs.Int("t", 10, "solver timeout (s)")
	fs.Parse(args)
	specs, err := LoadSpecs(specFilesIn(*repo))
	if err != nil {
		fmt.Println(err)
		return 2
	}
	s2, err := PrepareStage2(*repo, "/verif/schema", scenarios("quick"), specs)
	if err != nil {
		fmt.Println("stage2:", err)
		return 2
	}
	if !*keep {
		defer s2.cleanup()
	} else {
		fmt.Println("scratch:", s2.Root)
	}
	fmt.Printf("build %.1fs moq %.1fs load %.1fs\n", s2.buildS, s2.moqS, s2.loadS)
	s2.CheckAll()
	dischargeAll(s2.obls, *timeout)
	rc := 0
	for _, e := range s2.errs {
		fmt.Println("ERROR", e)
		rc = 2
	}
	nt, ft := 0, 0
	for _, t := range s2.tObls {
		nt++
		if !t.OK {
			ft++
			fmt.Printf("  TYPE-FAIL %s %v\n     %s\n", t.Name, t.Props, strings.ReplaceAll(t.Detail, "\n", "\n     "))
		}
	}
	ags := aggregate(s2.obls)
	nf := 0
	for _, a := range ags {
		if len(a.Failed) > 0 {
			nf++
			f := a.Failed[0]
			fmt.Printf("  FAIL(%s) %s x%d %v\n     %s\n", f.Res.Status, a.Name, a.N, a.Props, f.Note)
			if *verbose {
				fmt.Printf("    file %s\n    %s\n", f.Res.File, firstLines(f.Res.Output, 30))
			}
		}
	}
	fmt.Printf("type obligations %d (failed %d); smt obligations %d in %d groups (failed groups %d)\n", nt, ft, len(s2.obls), len(ags), nf)
	if ft > 0 || nf > 0 {
		if rc == 0 {
			rc = 1
		}
	}
	return rc
}

func init() {
	if os.Getenv("GOVC_BIGTERM") != "" {
		n := 0
		bigTermHook = func(op string, size int) {
			n++
			if n <= 3 {
				fmt.Fprintf(os.Stderr, "big term: op %s size %d\n%s\n", op, size, debug.Stack())
			}
		}
	}
	if os.Getenv("GOVC_PATHS") != "" {
		debugPaths = true
	}
}

var debugPaths bool
