package main

import (
	"fmt"
	"go/token"
	"go/types"
	"os"
	"strings"

	"golang.org/x/tools/go/packages"
	"golang.org/x/tools/go/ssa"
	"golang.org/x/tools/go/ssa/ssautil"
)

type Loaded struct {
	fset     *token.FileSet
	pkgs     []*packages.Package
	prog     *ssa.Program
	spkgs    []*ssa.Package
	funcs    map[string]*ssa.Function // by fnName
	allTypes []*types.Package
	modPaths map[string]bool // packages considered "module code"
	dir      string
	mutGlobals map[string]bool
}

// bindSpecial registers functions reachable only through data (template function map).
func (l *Loaded) bindSpecial() {
	for k, f := range l.mapLiteralFuncs("github.com/matryer/moq/internal/template", "templateFuncs") {
		l.funcs["template.templateFuncs["+k+"]"] = f
		fnAlias[f] = "template.templateFuncs[" + k + "]"
	}
}

func (l *Loaded) pos(p token.Pos) string {
	if !p.IsValid() {
		return ""
	}
	ps := l.fset.Position(p)
	return fmt.Sprintf("%s:%d", strings.TrimPrefix(ps.Filename, l.dir+"/"), ps.Line)
}

func (l *Loaded) isModuleFn(f *ssa.Function) bool {
	if f.Pkg == nil {
		if f.Parent() != nil {
			return l.isModuleFn(f.Parent())
		}
		// synthetic wrappers / instantiations
		if o := f.Origin(); o != nil && o != f {
			return l.isModuleFn(o)
		}
		// thunks and bound-method wrappers (method expressions / method values): as the method they forward to
		if f.Synthetic != "" {
			for _, b := range f.Blocks {
				for _, in := range b.Instrs {
					if ci, ok := in.(ssa.CallInstruction); ok {
						if cal := ci.Common().StaticCallee(); cal != nil && cal != f {
							return l.isModuleFn(cal)
						}
					}
				}
			}
		}
		return false
	}
	return l.modPaths[f.Pkg.Pkg.Path()]
}

// Load loads the packages matching patterns in dir with the given build tags.
func Load(dir string, tags string, patterns ...string) (*Loaded, error) {
	cfg := &packages.Config{
		Mode: packages.LoadAllSyntax,
		Dir:  dir,
		Env:  append(os.Environ(), "GOFLAGS=-mod=mod", "GOPROXY=off"),
	}
	if tags != "" {
		cfg.BuildFlags = []string{"-tags=" + tags}
	}
	pkgs, err := packages.Load(cfg, patterns...)
	if err != nil {
		return nil, err
	}
	var errs []string
	packages.Visit(pkgs, nil, func(p *packages.Package) {
		for _, e := range p.Errors {
			errs = append(errs, e.Error())
		}
	})
	if len(errs) > 0 {
		return nil, fmt.Errorf("package errors: %s", strings.Join(errs, "; "))
	}
	return buildLoaded(pkgs, dir), nil
}

func buildLoaded(pkgs []*packages.Package, dir string) *Loaded {
	prog, spkgs := ssautil.AllPackages(pkgs, ssa.GlobalDebug|ssa.InstantiateGenerics)
	prog.Build()
	l := &Loaded{fset: prog.Fset, pkgs: pkgs, prog: prog, spkgs: spkgs, funcs: map[string]*ssa.Function{}, modPaths: map[string]bool{}, dir: dir}
	for _, p := range pkgs {
		l.modPaths[p.PkgPath] = true
	}
	seen := map[*types.Package]bool{}
	packages.Visit(pkgs, nil, func(p *packages.Package) {
		if p.Types != nil && !seen[p.Types] {
			seen[p.Types] = true
			l.allTypes = append(l.allTypes, p.Types)
		}
	})
	for _, sp := range spkgs {
		if sp == nil {
			continue
		}
		for _, m := range sp.Members {
			switch x := m.(type) {
			case *ssa.Function:
				l.addFn(x)
			case *ssa.Type:
				t := x.Type()
				for _, tt := range []types.Type{t, types.NewPointer(t)} {
					ms := prog.MethodSets.MethodSet(tt)
					for i := 0; i < ms.Len(); i++ {
						if f := prog.MethodValue(ms.At(i)); f != nil && f.Synthetic == "" {
							l.addFn(f)
						}
					}
				}
				if n, ok := t.(*types.Named); ok {
					for i := 0; i < n.NumMethods(); i++ {
						if f := prog.FuncValue(n.Method(i)); f != nil {
							l.addFn(f)
						}
					}
				}
			}
		}
	}
	return l
}

func (l *Loaded) addFn(f *ssa.Function) {
	name := fnName(f)
	if _, ok := l.funcs[name]; ok {
		return
	}
	l.funcs[name] = f
	for _, a := range f.AnonFuncs {
		l.addFn(a)
	}
}

// mapLiteralFuncs finds functions stored under constant string keys into the
// package-level map variable (e.g. templateFuncs["Exported"]).
func (l *Loaded) mapLiteralFuncs(pkgPath, global string) map[string]*ssa.Function {
	out := map[string]*ssa.Function{}
	for _, sp := range l.spkgs {
		if sp == nil || sp.Pkg.Path() != pkgPath {
			continue
		}
		init := sp.Func("init")
		if init == nil {
			continue
		}
		for _, b := range init.Blocks {
			for _, in := range b.Instrs {
				mu, ok := in.(*ssa.MapUpdate)
				if !ok {
					continue
				}
				k, ok := mu.Key.(*ssa.Const)
				if !ok {
					continue
				}
				var fn *ssa.Function
				switch v := mu.Value.(type) {
				case *ssa.MakeInterface:
					switch f := v.X.(type) {
					case *ssa.Function:
						fn = f
					case *ssa.MakeClosure:
						fn, _ = f.Fn.(*ssa.Function)
					}
				case *ssa.Function:
					fn = v
				}
				if fn != nil {
					out[strings.Trim(k.Value.ExactString(), `"`)] = fn
				}
			}
		}
	}
	return out
}
