package main

// Replay of stage-1 counterexamples for functions over strings: the inputs of the solver's
// model are fed to the real function (in-package test injected with `go test -overlay`, nothing is
// written into /repo) and the violated clause is re-evaluated by an independent Go oracle.

import (
	"bytes"
	"go/token"
	"go/types"
	"encoding/json"
	"fmt"
	"os"
	"os/exec"
	"path/filepath"
	"regexp"
	"strconv"
	"strings"
)

type stringReplayer struct {
	pkgDir string // relative to the repository
	pkg    string
	params []string
	// body of the test: may use the variables named after params (strings); must call t.Errorf on violation
	body string
}

var stringReplayers = map[string]stringReplayer{
	"template.templateFuncs[Exported]": {"internal/template", "template", []string{"s"}, `
	got := templateFuncs["Exported"].(func(string) string)(s)
	want := ""
	if s != "" {
		want = strings.ToUpper(s[:1]) + s[1:]
		for _, in := range strings.Fields("ACL API ASCII CPU CSS DNS EOF GUID HTML HTTP HTTPS ID IP JSON LHS QPS RAM RHS RPC SLA SMTP SQL SSH TCP TLS TTL UDP UI UID UUID URI URL UTF8 VM XML XMPP XSRF XSS") {
			if strings.ToUpper(s) == in {
				want = in
			}
		}
	}
	if got != want {
		t.Errorf("Exported(%q) = %q, the naming rule gives %q", s, got, want)
	}`},
	"moq.parseInterfaceName": {"pkg/moq", "moq", []string{"namePair"}, `
	gi, gm := parseInterfaceName(namePair)
	wi, wm := namePair, namePair+"Mock"
	if k := strings.Index(namePair, ":"); k >= 0 {
		wi, wm = namePair[:k], namePair[k+1:]
	}
	if gi != wi || gm != wm {
		t.Errorf("parseInterfaceName(%q) = (%q, %q), want (%q, %q)", namePair, gi, gm, wi, wm)
	}`},
	"registry.stripVendorPath": {"internal/registry", "registry", []string{"p"}, `
	got := stripVendorPath(p)
	if !strings.Contains(p, "/vendor/") && got != p {
		t.Errorf("stripVendorPath(%q) = %q, a path without /vendor/ must be returned unchanged", p, got)
	}`},
	"registry.varName": {"internal/registry", "registry", []string{"name", "suffix"}, `
	if name != "" && name != "_" {
		got := varName(types.NewVar(token.NoPos, nil, name, types.Typ[types.Int]), suffix)
		want := name + suffix
		for _, r := range strings.Fields("mock callInfo append panic nil break default func interface select case defer go map struct chan else goto package switch const fallthrough if range type continue for import return var string bool byte rune uintptr int int8 int16 int32 int64 uint uint8 uint16 uint32 uint64 float32 float64 complex64 complex128") {
			if want == r {
				want += "MoqParam"
				break
			}
		}
		if got != want {
			t.Errorf("varName(%q, suffix %q) = %q, the naming rule gives %q", name, suffix, got, want)
		}
	} else {
		// unnamed: the name comes from the type (varNameForType has its own contract), then the same reserved-name rule
		for _, typ := range []types.Type{types.Typ[types.Int], types.Typ[types.String], types.Typ[types.Bool], types.Typ[types.Float64], types.Universe.Lookup("error").Type(),
			types.NewSlice(types.Typ[types.Byte]), types.NewPointer(types.Typ[types.Int]), types.NewMap(types.Typ[types.String], types.Typ[types.Int]), types.NewChan(types.SendRecv, types.Typ[types.Int])} {
			got := varName(types.NewVar(token.NoPos, nil, name, typ), suffix)
			want := varNameForType(typ) + suffix
			for _, r := range strings.Fields("mock callInfo append panic nil break default func interface select case defer go map struct chan else goto package switch const fallthrough if range type continue for import return var string bool byte rune uintptr int int8 int16 int32 int64 uint uint8 uint16 uint32 uint64 float32 float64 complex64 complex128") {
				if want == r {
					want += "MoqParam"
					break
				}
			}
			if got != want {
				t.Errorf("varName(unnamed %s, suffix %q) = %q, the naming rule gives %q", typ, suffix, got, want)
			}
		}
	}`},
	"registry.capitalise": {"internal/registry", "registry", []string{"s"}, `
	if s != "" {
		if got, want := capitalise(s), strings.ToUpper(s[:1])+s[1:]; got != want {
			t.Errorf("capitalise(%q) = %q, want %q", s, got, want)
		}
	}`},
	"registry.deCapitalise": {"internal/registry", "registry", []string{"s"}, `
	if s != "" {
		if got, want := deCapitalise(s), strings.ToLower(s[:1])+s[1:]; got != want {
			t.Errorf("deCapitalise(%q) = %q, want %q", s, got, want)
		}
	}`},
}

var modelStrRe = regexp.MustCompile(`\(define-fun \|?(in\.[A-Za-z0-9_]+)![0-9]+\|? \(\) String\s+"((?:[^"]|"")*)"\)`)

// smtUnescape turns an SMT-LIB string literal body into Go bytes.
func smtUnescape(s string) (string, bool) {
	s = strings.ReplaceAll(s, `""`, `"`)
	var b bytes.Buffer
	for i := 0; i < len(s); {
		if strings.HasPrefix(s[i:], `\u{`) {
			j := strings.Index(s[i:], "}")
			if j < 0 {
				return "", false
			}
			n, err := strconv.ParseUint(s[i+3:i+j], 16, 32)
			if err != nil || n > 0xFF {
				return "", false // outside the byte-string abstraction
			}
			b.WriteByte(byte(n))
			i += j + 1
			continue
		}
		if strings.HasPrefix(s[i:], `\x`) && i+4 <= len(s) {
			n, err := strconv.ParseUint(s[i+2:i+4], 16, 8)
			if err == nil {
				b.WriteByte(byte(n))
				i += 4
				continue
			}
		}
		b.WriteByte(s[i])
		i++
	}
	return b.String(), true
}

var smtLitRe = regexp.MustCompile(`"((?:[^"]|"")*)"`)

// candidateInputs: the model's values first, then the string constants of the failed query and simple
// case variants of them (the case-mapping functions are uninterpreted in the proof, so a model may
// depend on an impossible interpretation; constants of the obligation are where real failures live).
func candidateInputs(model map[string]string, params []string, queryFile string) [][]string {
	var first []string
	for _, p := range params {
		first = append(first, model[p])
	}
	out := [][]string{first}
	if len(params) == 2 && params[0] == "name" && params[1] == "suffix" {
		// identifiers: everything the language or go/types gives a meaning to, the names the generated body uses,
		// the string constants of the failed query and of the model, each without and with the result suffix
		seen := map[string]bool{}
		var names []string
		add := func(n string) {
			if n != "" && !seen[n] && token.IsIdentifier(n) || token.IsKeyword(n) && !seen[n] {
				seen[n] = true
				names = append(names, n)
			}
		}
		for k := token.BREAK; k <= token.VAR; k++ {
			add(k.String())
		}
		for _, n := range types.Universe.Names() {
			add(n)
		}
		for _, b := range types.Typ {
			add(b.Name())
		}
		for _, n := range []string{"mock", "callInfo", "Pointer", "in", "out", "s", "err", "ctx"} {
			add(n)
		}
		data, _ := os.ReadFile(queryFile)
		for _, m := range smtLitRe.FindAllStringSubmatch(string(data), -1) {
			if l, ok := smtUnescape(m[1]); ok && len(l) <= 40 {
				add(l)
				add(strings.TrimSuffix(l, "MoqParam"))
				add(strings.TrimSuffix(l, "Out"))
			}
		}
		out = append(out, []string{"", ""}, []string{"_", ""}, []string{"", "Out"}, []string{"_", "Out"})
		for _, n := range names {
			for _, suf := range []string{"", "Out"} {
				if len(out) < 900 {
					out = append(out, []string{n, suf})
				}
			}
		}
		return out
	}
	if len(params) != 1 {
		return out
	}
	seen := map[string]bool{first[0]: true}
	add := func(v string) {
		if !seen[v] && len(out) < 600 {
			seen[v] = true
			out = append(out, []string{v})
		}
	}
	data, _ := os.ReadFile(queryFile)
	for _, m := range smtLitRe.FindAllStringSubmatch(string(data), -1) {
		l, ok := smtUnescape(m[1])
		if !ok || len(l) > 40 {
			continue
		}
		add(l)
		add(strings.ToLower(l))
		add(strings.ToUpper(l))
		if l != "" {
			add(strings.ToUpper(l[:1]) + strings.ToLower(l[1:]))
			add(strings.ToLower(l[:1]) + l[1:])
		}
		add(l + "x")
		add("x:" + l)
		add(l + ":" + l)
	}
	return out
}

// replayStrings runs the real function on the model's inputs (then on inputs derived from the failed
// query's constants). It returns (confirmed, report).
func replayStrings(repo, fn string, solverOutput string, queryFile string) (bool, string) {
	c, _, r := replayStrings3(repo, fn, solverOutput, queryFile)
	return c, r
}

// replayStrings3 also reports whether the replay ran and the real function agreed with the oracle on every
// candidate input (clean): the solver's refutation then did not replay.
func replayStrings3(repo, fn string, solverOutput string, queryFile string) (confirmed, clean bool, report string) {
	rp, ok := stringReplayers[fn]
	if !ok {
		return false, false, ""
	}
	vals := map[string]string{}
	for _, m := range modelStrRe.FindAllStringSubmatch(solverOutput, -1) {
		v, ok := smtUnescape(m[2])
		if !ok {
			continue
		}
		vals[strings.TrimPrefix(m[1], "in.")] = v
	}
	cands := candidateInputs(vals, rp.params, queryFile)
	var lit strings.Builder
	for _, c := range cands {
		lit.WriteString("\t\t{")
		for i, v := range c {
			if i > 0 {
				lit.WriteString(", ")
			}
			lit.WriteString(strconv.Quote(v))
		}
		lit.WriteString("},\n")
	}
	var bind strings.Builder
	for i, p := range rp.params {
		fmt.Fprintf(&bind, "\t\t%s := in[%d]\n", p, i)
	}
	src := fmt.Sprintf("package %s\n\nimport (\n\t\"go/token\"\n\t\"go/types\"\n\t\"strings\"\n\t\"testing\"\n)\n\nvar _ = strings.ToUpper\nvar _ = token.NoPos\nvar _ = types.Typ\n\nfunc TestGovcReplay(t *testing.T) {\n\tinputs := [][]string{\n%s\t}\n\tfor k, in := range inputs {\n%s\t\tfunc() {\n%s\n\t\t}()\n\t\tif t.Failed() {\n\t\t\tt.Logf(\"failing input #%%d (input #0 is the solver's model)\", k)\n\t\t\treturn\n\t\t}\n\t}\n}\n",
		rp.pkg, lit.String(), bind.String(), rp.body)
	tmp, err := os.MkdirTemp("", "verif-replay1-")
	if err != nil {
		return false, false, err.Error()
	}
	defer os.RemoveAll(tmp)
	testFile := filepath.Join(tmp, "replay_test.go")
	os.WriteFile(testFile, []byte(src), 0o644)
	ov := map[string]any{"Replace": map[string]string{filepath.Join(repo, rp.pkgDir, "zz_govc_replay_test.go"): testFile}}
	ovData, _ := json.Marshal(ov)
	ovFile := filepath.Join(tmp, "overlay.json")
	os.WriteFile(ovFile, ovData, 0o644)
	cmd := exec.Command("go", "test", "-overlay", ovFile, "-vet=off", "-count=1", "-timeout", "60s", "-run", "TestGovcReplay", "./"+rp.pkgDir)
	cmd.Dir = repo
	cmd.Env = goEnv()
	var out bytes.Buffer
	cmd.Stdout = &out
	cmd.Stderr = &out
	err = cmd.Run()
	short := src
	if len(short) > 3000 {
		short = short[:3000] + "\n... (" + strconv.Itoa(len(cands)) + " candidate inputs)"
	}
	report = fmt.Sprintf("inputs from the solver's model: %v; %d candidate inputs in total\ngo test -overlay ... -run TestGovcReplay ./%s\n%s\n--- test source ---\n%s", vals, len(cands), rp.pkgDir, firstLines(out.String(), 20), short)
	confirmed = err != nil && strings.Contains(out.String(), "--- FAIL: TestGovcReplay")
	clean = err == nil && strings.Contains(out.String(), "ok") && len(cands) >= 1
	return confirmed, clean, report
}
