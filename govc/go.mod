module govc

go 1.24

require golang.org/x/tools v0.30.0

require (
	golang.org/x/mod v0.23.0 // indirect
	golang.org/x/sync v0.11.0 // indirect
)
