package main

// SMT-LIB term construction and solver racing.

import (
	"bytes"
	"context"
	"crypto/sha256"
	"encoding/hex"
	"fmt"
	"os"
	"os/exec"
	"path/filepath"
	"regexp"
	"strconv"
	"strings"
	"sync"
	"time"
)

type Sort string

const (
	SInt    Sort = "Int"
	SBool   Sort = "Bool"
	SString Sort = "String"
)

func ArrSort(idx, elem Sort) Sort { return Sort("(Array " + string(idx) + " " + string(elem) + ")") }

// Term is an SMT-LIB term with its sort.
type Term struct {
	S    string
	Sort Sort
}

func (t Term) String() string { return t.S }

func IntLit(n int64) Term {
	if n < 0 {
		return Term{"(- " + strconv.FormatInt(-n, 10) + ")", SInt}
	}
	return Term{strconv.FormatInt(n, 10), SInt}
}

func BoolLit(b bool) Term {
	if b {
		return Term{"true", SBool}
	}
	return Term{"false", SBool}
}

// StrLit encodes a Go string (bytes) as an SMT-LIB 2.6 string literal: one
// SMT character per byte.
func StrLit(s string) Term {
	var b strings.Builder
	b.WriteByte('"')
	for i := 0; i < len(s); i++ {
		c := s[i]
		switch {
		case c == '"':
			b.WriteString(`""`)
		case c == '\\':
			b.WriteString(`\u{5c}`)
		case c >= 0x20 && c < 0x7f:
			b.WriteByte(c)
		default:
			fmt.Fprintf(&b, `\u{%x}`, c)
		}
	}
	b.WriteByte('"')
	return Term{b.String(), SString}
}

func app(sort Sort, op string, args ...Term) Term {
	var b strings.Builder
	b.WriteByte('(')
	b.WriteString(op)
	for _, a := range args {
		b.WriteByte(' ')
		b.WriteString(a.S)
	}
	b.WriteByte(')')
	if bigTermHook != nil && b.Len() > 200000 {
		bigTermHook(op, b.Len())
	}
	return Term{b.String(), sort}
}

var bigTermHook func(op string, n int)

func And(ts ...Term) Term {
	var xs []Term
	for _, t := range ts {
		if t.S == "true" {
			continue
		}
		if t.S == "false" {
			return BoolLit(false)
		}
		xs = append(xs, t)
	}
	if len(xs) == 0 {
		return BoolLit(true)
	}
	if len(xs) == 1 {
		return xs[0]
	}
	return app(SBool, "and", xs...)
}

func Or(ts ...Term) Term {
	var xs []Term
	for _, t := range ts {
		if t.S == "false" {
			continue
		}
		if t.S == "true" {
			return BoolLit(true)
		}
		xs = append(xs, t)
	}
	if len(xs) == 0 {
		return BoolLit(false)
	}
	if len(xs) == 1 {
		return xs[0]
	}
	return app(SBool, "or", xs...)
}

func Not(t Term) Term {
	if t.S == "true" {
		return BoolLit(false)
	}
	if t.S == "false" {
		return BoolLit(true)
	}
	if strings.HasPrefix(t.S, "(not ") {
		return Term{t.S[5 : len(t.S)-1], SBool}
	}
	return app(SBool, "not", t)
}

func Implies(a, b Term) Term {
	if a.S == "true" {
		return b
	}
	return app(SBool, "=>", a, b)
}

func Eq(a, b Term) Term {
	if a.S == b.S {
		return BoolLit(true)
	}
	if x, ok := litInt(a); ok {
		if y, ok := litInt(b); ok {
			return BoolLit(x == y)
		}
	}
	if a.Sort == SString && len(a.S) > 0 && a.S[0] == '"' && len(b.S) > 0 && b.S[0] == '"' {
		return BoolLit(a.S == b.S)
	}
	return app(SBool, "=", a, b)
}

func Ite(c, a, b Term) Term {
	if c.S == "true" {
		return a
	}
	if c.S == "false" {
		return b
	}
	if a.S == b.S {
		return a
	}
	return app(a.Sort, "ite", c, a, b)
}

func Select(arr, idx Term) Term {
	// (Array I E) -> E
	return app(elemSort(arr.Sort), "select", arr, idx)
}

func Store(arr, idx, v Term) Term { return app(arr.Sort, "store", arr, idx, v) }

func elemSort(s Sort) Sort {
	// parse "(Array I E)"
	str := string(s)
	if !strings.HasPrefix(str, "(Array ") {
		panic("elemSort of non-array sort " + str)
	}
	inner := str[len("(Array ") : len(str)-1]
	// skip index sort
	i := skipSort(inner, 0)
	return Sort(strings.TrimSpace(inner[i:]))
}

func idxSort(s Sort) Sort {
	str := string(s)
	inner := str[len("(Array ") : len(str)-1]
	i := skipSort(inner, 0)
	return Sort(strings.TrimSpace(inner[:i]))
}

func skipSort(s string, i int) int {
	for i < len(s) && s[i] == ' ' {
		i++
	}
	if i < len(s) && s[i] == '(' {
		depth := 0
		for ; i < len(s); i++ {
			if s[i] == '(' {
				depth++
			} else if s[i] == ')' {
				depth--
				if depth == 0 {
					return i + 1
				}
			}
		}
		return i
	}
	for i < len(s) && s[i] != ' ' {
		i++
	}
	return i
}

func ConstArr(s Sort, v Term) Term {
	return Term{"((as const " + string(s) + ") " + v.S + ")", s}
}

func ZeroOf(s Sort) Term {
	switch s {
	case SInt:
		return IntLit(0)
	case SBool:
		return BoolLit(false)
	case SString:
		return StrLit("")
	}
	if strings.HasPrefix(string(s), "(Array ") {
		return ConstArr(s, ZeroOf(elemSort(s)))
	}
	panic("ZeroOf " + string(s))
}

func Add(a, b Term) Term {
	if x, ok := litInt(a); ok {
		if y, ok := litInt(b); ok {
			return IntLit(x + y)
		}
		if x == 0 {
			return b
		}
	}
	if y, ok := litInt(b); ok && y == 0 {
		return a
	}
	return app(SInt, "+", a, b)
}
func Sub(a, b Term) Term {
	if x, ok := litInt(a); ok {
		if y, ok := litInt(b); ok {
			return IntLit(x - y)
		}
	}
	if y, ok := litInt(b); ok && y == 0 {
		return a
	}
	return app(SInt, "-", a, b)
}
func cmpFold(op string, a, b Term) Term {
	if x, ok := litInt(a); ok {
		if y, ok := litInt(b); ok {
			switch op {
			case "<=":
				return BoolLit(x <= y)
			case "<":
				return BoolLit(x < y)
			case ">=":
				return BoolLit(x >= y)
			case ">":
				return BoolLit(x > y)
			}
		}
	}
	return app(SBool, op, a, b)
}
// CellIdx is the index of element i of a slice with offset off inside its backing array. With a
// symbolic offset the sum is hidden behind the function `at` (axiom at(o,i) = o+i with pattern), so
// that quantifier instantiation by E-matching is not defeated by arithmetic normalisation.
func CellIdx(off, i Term) Term {
	if n, ok := litInt(off); ok && n == 0 {
		return i
	}
	if _, ok := litInt(off); ok {
		if _, ok2 := litInt(i); ok2 {
			return Add(off, i)
		}
	}
	return app(SInt, "at", off, i)
}

// Mix(a, b, n): the array that agrees with a below n and with b from n on: the heap class after a
// call that may only have initialised objects it allocated itself (references >= n).
func sortId(s Sort) string {
	r := strings.NewReplacer("(", "", ")", "", " ", "_")
	return r.Replace(string(s))
}

func Mix(a, b, n Term) Term {
	mixMu.Lock()
	mixSorts[sortId(a.Sort)] = string(a.Sort)
	mixMu.Unlock()
	return app(a.Sort, "mix."+sortId(a.Sort), a, b, n)
}

var mixMu sync.Mutex

func mixDecls(text string) string {
	var b strings.Builder
	seen := map[string]bool{}
	for _, m := range mixRe.FindAllStringSubmatch(text, -1) {
		id := m[1]
		if seen[id] {
			continue
		}
		seen[id] = true
		srt := mixSorts[id]
		if srt == "" {
			continue
		}
		fmt.Fprintf(&b, "(declare-fun mix.%s (%s %s Int) %s)\n", id, srt, srt, srt)
		fmt.Fprintf(&b, "(assert (forall ((a!m %s) (b!m %s) (n!m Int) (p!m Int)) (! (= (select (mix.%s a!m b!m n!m) p!m) (ite (< p!m n!m) (select a!m p!m) (select b!m p!m))) :pattern ((select (mix.%s a!m b!m n!m) p!m)))))\n", srt, srt, id, id)
	}
	return b.String()
}

var mixRe = regexp.MustCompile(`\(mix\.([A-Za-z0-9_]+) `)
var mixSorts = map[string]string{}

const atDecl = "(declare-fun at (Int Int) Int)\n(assert (forall ((o!a Int) (i!a Int)) (! (= (at o!a i!a) (+ o!a i!a)) :pattern ((at o!a i!a)))))\n"

func Le(a, b Term) Term { return cmpFold("<=", a, b) }
func Lt(a, b Term) Term { return cmpFold("<", a, b) }
func Ge(a, b Term) Term { return cmpFold(">=", a, b) }
func Gt(a, b Term) Term { return cmpFold(">", a, b) }

func litInt(t Term) (int64, bool) {
	if t.Sort != SInt {
		return 0, false
	}
	n, err := strconv.ParseInt(t.S, 10, 64)
	if err == nil {
		return n, true
	}
	if strings.HasPrefix(t.S, "(- ") {
		n, err := strconv.ParseInt(t.S[3:len(t.S)-1], 10, 64)
		if err == nil {
			return -n, true
		}
	}
	return 0, false
}

// quote an arbitrary name as SMT symbol
func sym(name string) string {
	name = strings.NewReplacer("|", "!", "\\", "!").Replace(name)
	simple := true
	for i := 0; i < len(name); i++ {
		c := name[i]
		if !(c >= 'a' && c <= 'z' || c >= 'A' && c <= 'Z' || c >= '0' && c <= '9' || c == '_' || c == '.' || c == '!' || c == '$' || c == '@') {
			simple = false
			break
		}
	}
	if simple && len(name) > 0 && !(name[0] >= '0' && name[0] <= '9') {
		return name
	}
	return "|" + name + "|"
}

// ---------------------------------------------------------------------------
// Solver racing

type SolverResult struct {
	Status string // "unsat" (proved), "sat", "unknown", "timeout", "error"
	Solver string
	TimeS  float64
	Output string // raw output of the deciding (or last) solver
	File   string
	Cached bool
}

type solverSpec struct {
	name string
	args func(file string, timeoutS int) []string
}

var solvers = []solverSpec{
	{"z3-5.1.0", func(f string, t int) []string { return []string{"z3-new", "-T:" + strconv.Itoa(t), f} }},
	{"z3-4.8.12", func(f string, t int) []string { return []string{"z3", "-T:" + strconv.Itoa(t), f} }},
	{"cvc5-1.0.3", func(f string, t int) []string {
		return []string{"cvc5", "--strings-exp", "--tlimit=" + strconv.Itoa(t*1000), f}
	}},
}

var (
	smtDir      = "/verif/out/smt"
	solverSem   = make(chan struct{}, 16)
	cacheMu     sync.Mutex
	resultCache = map[string]SolverResult{}
)

// Solve writes the query text to a file and races the installed solvers on it.
// The text must contain a (check-sat) and may contain (get-model) after it.
// agreeMode (thorough tier): every solver runs to completion and definite answers must agree.
var agreeMode bool

func forgetResult(text string) {
	h := sha256.Sum256([]byte(text))
	cacheMu.Lock()
	delete(resultCache, hex.EncodeToString(h[:8]))
	cacheMu.Unlock()
}

func Solve(name, text string, timeoutS int, needCvc5 bool) SolverResult {
	h := sha256.Sum256([]byte(text))
	key := hex.EncodeToString(h[:8])
	cacheMu.Lock()
	if r, ok := resultCache[key]; ok {
		cacheMu.Unlock()
		r.Cached = true
		return r
	}
	cacheMu.Unlock()

	os.MkdirAll(smtDir, 0o755)
	safe := strings.Map(func(r rune) rune {
		if r >= 'a' && r <= 'z' || r >= 'A' && r <= 'Z' || r >= '0' && r <= '9' || r == '.' || r == '-' || r == '_' {
			return r
		}
		return '_'
	}, name)
	if len(safe) > 120 {
		safe = safe[:120]
	}
	file := filepath.Join(smtDir, safe+"."+key+".smt2")
	os.WriteFile(file, []byte(text), 0o644)

	solverSem <- struct{}{}
	defer func() { <-solverSem }()

	ctx, cancel := context.WithTimeout(context.Background(), time.Duration(timeoutS+2)*time.Second)
	defer cancel()
	type one struct {
		res SolverResult
	}
	ch := make(chan SolverResult, len(solvers))
	n := 0
	for _, sp := range solvers {
		if strings.HasPrefix(sp.name, "cvc5") && !needCvc5 && strings.Contains(text, "(lambda ") {
			continue
		}
		n++
		go func(sp solverSpec) {
			start := time.Now()
			args := sp.args(file, timeoutS)
			cmd := exec.CommandContext(ctx, args[0], args[1:]...)
			var out bytes.Buffer
			cmd.Stdout = &out
			cmd.Stderr = &out
			cmd.Run()
			el := time.Since(start).Seconds()
			o := out.String()
			first := strings.TrimSpace(strings.SplitN(o, "\n", 2)[0])
			st := "error"
			switch first {
			case "unsat", "sat", "unknown", "timeout":
				st = first
			default:
				if ctx.Err() != nil || strings.Contains(o, "timeout") || strings.Contains(o, "interrupted") {
					st = "timeout"
				}
			}
			ch <- SolverResult{Status: st, Solver: sp.name, TimeS: el, Output: o, File: file}
		}(sp)
	}
	var last SolverResult
	got := false
	for i := 0; i < n; i++ {
		r := <-ch
		if r.Status == "unsat" || r.Status == "sat" {
			if agreeMode {
				if got && last.Status != r.Status {
					last = SolverResult{Status: "error", Solver: last.Solver + " vs " + r.Solver, Output: "solvers disagree: " + last.Solver + " says " + last.Status + ", " + r.Solver + " says " + r.Status, File: file}
					cancel()
					break
				}
				if !got {
					last = r
				} else {
					last.Solver += "+" + r.Solver
				}
				got = true
				continue
			}
			cancel()
			last = r
			got = true
			break
		}
		if !got {
			if last.Status == "" || last.Status == "error" {
				last = r
			}
		}
	}
	if len(last.Output) > 20000 {
		last.Output = last.Output[:20000]
	}
	cacheMu.Lock()
	resultCache[key] = last
	cacheMu.Unlock()
	if last.Status == "unsat" {
		// only queries that were not discharged are kept (they are referenced by the replay files)
		os.Remove(file)
	}
	return last
}

// pruneQueryFiles removes query files of earlier runs that are older than the given age (the directory is a
// scratch area: a long series of runs on failing trees would otherwise fill the disk).
func pruneQueryFiles(maxAge time.Duration) {
	ents, err := os.ReadDir(smtDir)
	if err != nil {
		return
	}
	now := time.Now()
	for _, e := range ents {
		if info, err := e.Info(); err == nil && now.Sub(info.ModTime()) > maxAge {
			os.Remove(filepath.Join(smtDir, e.Name()))
		}
	}
}
