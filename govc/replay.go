package main

// Replay of failed stage-2 obligations against the real generated code: a
// reflective conformance test (independent sequential oracle, re-entrancy with
// a watchdog, race detector) is injected into the scratch package that holds
// the mock moq emitted, and run with `go test -race`.

import (
	"bytes"
	"fmt"
	"go/types"
	"os"
	"os/exec"
	"path/filepath"
	"regexp"
	"strings"
)

var clauseSubtest = map[string]string{}

func init() {
	for sub, clauses := range map[string][]string{
		"TestReplayDelegation": {"invoke-only-when-func-set", "invoke-at-most-once", "invoke-callee-is-func-field", "invoke-passes-arguments", "results-forwarded", "delegates-when-func-set", "no-other-writes"},
		"TestReplayRecording":  {"record-appended-once", "record-prefix-kept", "record-holds-arguments", "recorded-before-invoke", "accessor-leaves-list-unchanged", "accessor-returns-current-list", "accessor-capacity-not-beyond-list", "accessor-never-panics", "accessor-invokes-nothing", "no-runtime-panic"},
		"TestReplaySnapshots":  {"snapshot-invariant-preserved", "snapshots-unchanged"},
		"TestReplayReentrancy": {"no-lock-held-at-invoke", "no-lock-held-at-exit", "no-lock-nesting", "no-go-defer-recover", "unlock-matches-lock"},
		"TestReplayRace":       {"perm-load", "perm-store", "perm-append", "lock-is-own-field", "only-rwmutex-operations", "lock-protects-a-record-list"},
		"TestReplayNilFunc":    {"panic-only-when-func-nil", "panic-before-any-effect", "panic-message-identifies", "nil-func-panics-by-default", "stub-never-panics", "stub-call-recorded", "stub-returns-zero-values"},
		"TestReplayResets":     {"reset-empties-list", "reset-clears-its-list", "reset-never-panics", "reset-invokes-nothing", "resetall-clears-every-list", "touches-only-own-list"},
	} {
		for _, c := range clauses {
			clauseSubtest[c] = sub
		}
	}
}

type ReplayResult struct {
	Ran      bool
	Failed   map[string]bool // subtest -> failed
	Output   string
	TestFile string
	Cmd      string
}

func typeArgFor(tp *types.TypeParam) string {
	c := tp.Constraint()
	if iface, ok := c.Underlying().(*types.Interface); ok {
		for i := 0; i < iface.NumEmbeddeds(); i++ {
			switch e := iface.EmbeddedType(i).(type) {
			case *types.Union:
				if b, ok := e.Term(0).Type().Underlying().(*types.Basic); ok {
					return b.Name()
				}
			case *types.Basic:
				return e.Name()
			case *types.Named:
				if u, ok := e.Underlying().(*types.Interface); ok {
					for j := 0; j < u.NumEmbeddeds(); j++ {
						if un, ok := u.EmbeddedType(j).(*types.Union); ok {
							if b, ok := un.Term(0).Type().Underlying().(*types.Basic); ok {
								return b.Name()
							}
						}
					}
				}
			}
		}
	}
	if n, ok := c.(*types.Named); ok {
		if u, ok := n.Underlying().(*types.Interface); ok {
			for j := 0; j < u.NumEmbeddeds(); j++ {
				if un, ok := u.EmbeddedType(j).(*types.Union); ok {
					if b, ok := un.Term(0).Type().Underlying().(*types.Basic); ok {
						return b.Name()
					}
				}
			}
		}
	}
	return "int"
}

// replayMock runs the conformance test against one generated mock.
func (s2 *Stage2) replayMock(mi *mockInfo) *ReplayResult {
	res := &ReplayResult{Failed: map[string]bool{}}
	sc := mi.sc
	tmpl, err := os.ReadFile(filepath.Join(verifDir, "replay", "stage2_replay_test.go.tmpl"))
	if err != nil {
		res.Output = err.Error()
		return res
	}
	dir := filepath.Dir(sc.OutFile)
	pkgName := mi.pkg.Types.Name()
	newMock := "&" + mi.mockName
	if tps := mi.mock.TypeParams(); tps.Len() > 0 {
		var as []string
		for i := 0; i < tps.Len(); i++ {
			as = append(as, typeArgFor(tps.At(i)))
		}
		newMock += "[" + strings.Join(as, ", ") + "]"
	}
	newMock += "{}"
	var ms []string
	for _, m := range mi.methods {
		if m.Exported() { // reflection cannot drive unexported methods / fields
			ms = append(ms, fmt.Sprintf("%q", m.Name()))
		}
	}
	src := string(tmpl)
	for k, v := range map[string]string{"{{PKG}}": pkgName, "{{STUB}}": fmt.Sprint(sc.Stub), "{{RESETS}}": fmt.Sprint(sc.Resets),
		"{{MOCKNAME}}": mi.mockName, "{{IFACENAME}}": mi.ifaceArg, "{{METHODS}}": strings.Join(ms, ", "), "{{NEWMOCK}}": newMock} {
		src = strings.ReplaceAll(src, k, v)
	}
	file := filepath.Join(dir, "zz_replay_"+strings.ToLower(mi.mockName)+"_test.go")
	if err := os.WriteFile(file, []byte(src), 0o644); err != nil {
		res.Output = err.Error()
		return res
	}
	defer os.Remove(file)
	res.TestFile = src
	args := []string{"test", "-race", "-count=1", "-vet=off", "-timeout", "90s", "-run", "TestReplay", "."}
	cmd := exec.Command("go", args...)
	cmd.Dir = dir
	cmd.Env = goEnv()
	var out bytes.Buffer
	cmd.Stdout = &out
	cmd.Stderr = &out
	cmd.Run()
	res.Ran = true
	res.Cmd = "go " + strings.Join(args, " ") + " (in the scratch package holding moq's output for scenario " + sc.flagString() + ")"
	res.Output = out.String()
	if len(res.Output) > 6000 {
		res.Output = res.Output[:6000] + "\n..."
	}
	for _, m := range regexp.MustCompile(`--- FAIL: (TestReplay\w+)`).FindAllStringSubmatch(out.String(), -1) {
		res.Failed[m[1]] = true
	}
	if strings.Contains(out.String(), "WARNING: DATA RACE") {
		res.Failed["TestReplayRace"] = true
	}
	if strings.Contains(out.String(), "[build failed]") || strings.Contains(out.String(), "[setup failed]") {
		res.Ran = false
	}
	return res
}
