package main

// Contract language: parsing of //@ blocks and evaluation of contract
// expressions over symbolic states.

import (
	"fmt"
	"go/ast"
	"go/parser"
	"go/token"
	"go/types"
	"os"
	"path/filepath"
	"regexp"
	"strconv"
	"strings"
)

type Clause struct {
	Label string
	Props []string
	Expr  ast.Expr
	Src   string
	KF    string // known-finding id guarding this clause (exclusion), if any
	Tagged bool  // the clause names the properties it serves itself ({C11,C14} ...): it states part of a property, not a proof device
}

type LoopSpec struct {
	Invariants []Clause
	Decreases  ast.Expr
	Increases  ast.Expr // strictly greater at every back edge than at the header (the code-dependent half of a termination argument whose bound is assumed)
	Unroll     int
	AssumeTerm string // termination argued informally in the contract (an assumption, listed in the evidence)
}

type FuncSpec struct {
	Name        string
	ResultNames []string
	Requires    []Clause
	Axioms      []Clause // assumed at entry (instances of assumed contracts on dependencies); listed in the evidence
	Lemmas      []Lemma  // proved at entry from an instance of a verified functional contract, then usable as a fact
	Ensures     []Clause
	Modifies    []string
	Loops       map[int]*LoopSpec
	Props       []string
	SafetyProps []string
	Trusted     bool   // assumed, not verified (extern / trusted)
	TrustNote   string // why
	Effect      string // pure | fs-read | fs-write | io | nondet | exit
	File        string
	Line        int
	Decreases   ast.Expr
	AllowPanic  bool
	Inline      bool
	Functional  string // name of the uninterpreted function that equals the result (pure function of the arguments)
}

// Lemma: `lemma <label>: <expr> by <function>(<args>)` - a ghost call. The named function must have a verified
// (not trusted) `functional` contract without a modifies clause; its precondition at the given arguments is an
// obligation, its postconditions (with the result named by the function's uninterpreted symbol) are then facts,
// and <expr> is an obligation under them. Nothing is assumed.
type Lemma struct {
	Clause Clause
	Callee string
	Args   []ast.Expr
}

type Macro struct {
	Name   string
	Params []string
	Body   ast.Expr
	Src    string
}

type SchemaClause struct {
	Kind  string // method | accessor | reset | resetall | type
	Name  string
	Props []string
	Text  string
}

type SpecDB struct {
	Funcs   map[string]*FuncSpec
	Macros  map[string]*Macro
	Schema  []SchemaClause
	Order   []string
	Files   []string
	Assumes []string // textual list of assumptions declared in the files
	Void    map[string]bool // contracts that do not apply to the current tree (the function's signature changed): treated as absent
	Raw     map[string][]string
}

func (db *SpecDB) Lookup(name string) *FuncSpec {
	if db == nil || db.Void[name] {
		return nil
	}
	return db.Funcs[name]
}

var clauseKW = regexp.MustCompile(`^(func|extern|define|requires|ensures|modifies|loop|props|safety|schema|trusted|effect|decreases|assume|allow-panic|inline|functional|axiom|lemma)\b`)

// LoadSpecs reads every given contract file.
func LoadSpecs(files []string) (*SpecDB, error) {
	db := &SpecDB{Funcs: map[string]*FuncSpec{}, Macros: map[string]*Macro{}, Raw: map[string][]string{}, Void: map[string]bool{}}
	for _, f := range files {
		if err := db.loadFile(f); err != nil {
			return nil, err
		}
		db.Files = append(db.Files, f)
	}
	return db, nil
}

func (db *SpecDB) loadFile(file string) error {
	data, err := os.ReadFile(file)
	if err != nil {
		return err
	}
	// gather logical clauses: a clause starts at a keyword and continues on following //@ lines
	type lc struct {
		text string
		line int
	}
	var clauses []lc
	for i, line := range strings.Split(string(data), "\n") {
		t := strings.TrimSpace(line)
		var body string
		switch {
		case strings.HasPrefix(t, "//@"):
			body = strings.TrimSpace(t[3:])
		case strings.HasPrefix(t, "// @"):
			body = strings.TrimSpace(t[4:])
		default:
			continue
		}
		if k := strings.Index(body, " -- "); k >= 0 {
			body = strings.TrimSpace(body[:k])
		}
		if body == "" || strings.HasPrefix(body, "--") {
			continue
		}
		if clauseKW.MatchString(body) {
			clauses = append(clauses, lc{body, i + 1})
		} else if len(clauses) > 0 {
			clauses[len(clauses)-1].text += " " + body
		} else {
			return fmt.Errorf("%s:%d: continuation without clause", file, i+1)
		}
	}
	var cur *FuncSpec
	for _, c := range clauses {
		kw := clauseKW.FindString(c.text)
		rest := strings.TrimSpace(c.text[len(kw):])
		errf := func(format string, a ...any) error {
			return fmt.Errorf("%s:%d: %s", file, c.line, fmt.Sprintf(format, a...))
		}
		switch kw {
		case "func", "extern":
			name := rest
			var results []string
			if k := strings.Index(rest, "->"); k >= 0 {
				name = strings.TrimSpace(rest[:k])
				for _, r := range strings.Split(rest[k+2:], ",") {
					results = append(results, strings.TrimSpace(r))
				}
			}
			if _, dup := db.Funcs[name]; dup {
				return errf("duplicate contract for %s", name)
			}
			cur = &FuncSpec{Name: name, ResultNames: results, Loops: map[int]*LoopSpec{}, File: file, Line: c.line}
			if kw == "extern" {
				cur.Trusted = true
				cur.TrustNote = "assumed contract on a dependency"
			}
			db.Funcs[name] = cur
			db.Order = append(db.Order, name)
		case "define":
			k := strings.Index(rest, "=")
			if k < 0 {
				return errf("define needs '='")
			}
			head := strings.TrimSpace(rest[:k])
			body := strings.TrimSpace(rest[k+1:])
			op := strings.Index(head, "(")
			if op < 0 || !strings.HasSuffix(head, ")") {
				return errf("define needs name(params)")
			}
			m := &Macro{Name: strings.TrimSpace(head[:op]), Src: body}
			for _, p := range strings.Split(head[op+1:len(head)-1], ",") {
				if p = strings.TrimSpace(p); p != "" {
					m.Params = append(m.Params, p)
				}
			}
			ex, err := parseSpecExpr(body)
			if err != nil {
				return errf("define %s: %v", m.Name, err)
			}
			m.Body = ex
			db.Macros[m.Name] = m
		case "schema":
			f := strings.Fields(rest)
			if len(f) < 2 {
				return errf("schema needs kind and clause name")
			}
			sc := SchemaClause{Kind: f[0], Name: f[1]}
			txt := strings.TrimSpace(strings.TrimPrefix(strings.TrimSpace(strings.TrimPrefix(rest, f[0])), f[1]))
			if strings.HasPrefix(txt, "{") {
				k := strings.Index(txt, "}")
				sc.Props = splitList(txt[1:k])
				txt = strings.TrimSpace(txt[k+1:])
			}
			sc.Text = txt
			db.Schema = append(db.Schema, sc)
			cur = nil
		case "assume":
			db.Assumes = append(db.Assumes, rest)
		default:
			if cur == nil {
				return errf("clause %q outside a func block", kw)
			}
			db.Raw[cur.Name] = append(db.Raw[cur.Name], c.text)
			switch kw {
			case "props":
				cur.Props = splitList(rest)
				if cur.SafetyProps == nil {
					cur.SafetyProps = []string{"C19"}
				}
			case "safety":
				cur.SafetyProps = splitList(rest)
			case "trusted":
				cur.Trusted = true
				cur.TrustNote = rest
			case "effect":
				cur.Effect = rest
			case "allow-panic":
				cur.AllowPanic = true
			case "inline":
				cur.Inline = true
			case "functional":
				cur.Functional = rest
			case "modifies":
				cur.Modifies = append(cur.Modifies, splitList(rest)...)
			case "axiom":
				cl, err := parseClause(rest, cur.Props)
				if err != nil {
					return errf("axiom: %v", err)
				}
				cur.Axioms = append(cur.Axioms, cl)
				db.Assumes = appendUnique(db.Assumes, "axiom "+cur.Name+": "+rest)
			case "lemma":
				k := strings.LastIndex(rest, " by ")
				if k < 0 {
					return errf("lemma: want `lemma <label>: <expr> by <function>(<args>)`")
				}
				cl, err := parseClause(rest[:k], cur.Props)
				if err != nil {
					return errf("lemma: %v", err)
				}
				by := strings.TrimSpace(rest[k+4:])
				op := strings.Index(by, "(")
				if op <= 0 || !strings.HasSuffix(by, ")") {
					return errf("lemma: want `by <function>(<args>)`, got %q", by)
				}
				cx, err := parseSpecExpr("f" + by[op:])
				if err != nil {
					return errf("lemma: %v", err)
				}
				ce, ok := cx.(*ast.CallExpr)
				if !ok {
					return errf("lemma: %q is not a call", by)
				}
				cur.Lemmas = append(cur.Lemmas, Lemma{Clause: cl, Callee: strings.TrimSpace(by[:op]), Args: ce.Args})
			case "requires", "ensures":
				cl, err := parseClause(rest, cur.Props)
				if err != nil {
					return errf("%s: %v", kw, err)
				}
				if cl.Label == "" {
					n := len(cur.Requires)
					if kw == "ensures" {
						n = len(cur.Ensures)
					}
					cl.Label = "#" + strconv.Itoa(n+1)
				}
				if kw == "requires" {
					cur.Requires = append(cur.Requires, cl)
				} else {
					cur.Ensures = append(cur.Ensures, cl)
				}
			case "decreases":
				ex, err := parseSpecExpr(rest)
				if err != nil {
					return errf("decreases: %v", err)
				}
				cur.Decreases = ex
			case "loop":
				f := strings.Fields(rest)
				if len(f) < 2 {
					return errf("loop needs ordinal and clause")
				}
				n, err := strconv.Atoi(f[0])
				if err != nil {
					return errf("loop ordinal: %v", err)
				}
				ls := cur.Loops[n]
				if ls == nil {
					ls = &LoopSpec{}
					cur.Loops[n] = ls
				}
				body := strings.TrimSpace(strings.TrimPrefix(strings.TrimSpace(strings.TrimPrefix(rest, f[0])), f[1]))
				switch f[1] {
				case "invariant":
					cl, err := parseClause(body, cur.Props)
					if err != nil {
						return errf("loop invariant: %v", err)
					}
					if cl.Label == "" {
						cl.Label = "#" + strconv.Itoa(len(ls.Invariants)+1)
					}
					ls.Invariants = append(ls.Invariants, cl)
				case "decreases":
					ex, err := parseSpecExpr(body)
					if err != nil {
						return errf("loop decreases: %v", err)
					}
					ls.Decreases = ex
				case "increases":
					ex, err := parseSpecExpr(body)
					if err != nil {
						return errf("loop increases: %v", err)
					}
					ls.Increases = ex
				case "unroll":
					k, err := strconv.Atoi(body)
					if err != nil {
						return errf("loop unroll: %v", err)
					}
					ls.Unroll = k
				case "assume-terminates":
					ls.AssumeTerm = body
					db.Assumes = appendUnique(db.Assumes, fmt.Sprintf("%s loop %d terminates (not proved): %s", cur.Name, n, body))
				default:
					return errf("unknown loop clause %q", f[1])
				}
			}
		}
	}
	return nil
}

func splitList(s string) []string {
	var out []string
	for _, x := range strings.FieldsFunc(s, func(r rune) bool { return r == ',' || r == ' ' }) {
		if x = strings.TrimSpace(x); x != "" {
			out = append(out, x)
		}
	}
	return out
}

var labelRe = regexp.MustCompile(`^(\{[A-Za-z0-9, ]*\})?\s*([A-Za-z][A-Za-z0-9_\-]*)?\s*:\s`)

// parseClause parses "[{C01,C02}] [label:] expr".
func parseClause(s string, defProps []string) (Clause, error) {
	cl := Clause{Props: defProps, Src: s}
	s = strings.TrimSpace(s)
	if strings.HasPrefix(s, "{") {
		k := strings.Index(s, "}")
		cl.Props = splitList(s[1:k])
		cl.Tagged = true
		s = strings.TrimSpace(s[k+1:])
	}
	if strings.HasPrefix(s, "[") { // known-finding exclusion tag: [KF-xx]
		k := strings.Index(s, "]")
		cl.KF = strings.TrimSpace(s[1:k])
		s = strings.TrimSpace(s[k+1:])
	}
	if m := regexp.MustCompile(`^([A-Za-z][A-Za-z0-9_\-]*)\s*:\s`).FindStringSubmatch(s); m != nil {
		cl.Label = m[1]
		s = strings.TrimSpace(s[len(m[0]):])
	}
	ex, err := parseSpecExpr(s)
	if err != nil {
		return cl, fmt.Errorf("%v in %q", err, s)
	}
	cl.Expr = ex
	return cl, nil
}

func parseSpecExpr(s string) (ast.Expr, error) {
	d := desugar(s)
	ex, err := parser.ParseExpr(d)
	if err != nil {
		return nil, fmt.Errorf("%v (desugared: %s)", err, d)
	}
	return ex, nil
}

// desugar rewrites `a ==> b` to implies(a, b) and `a <==> b` to iff(a, b), at every nesting level.
func desugar(s string) string {
	// process bracketed groups recursively
	var out strings.Builder
	i := 0
	for i < len(s) {
		c := s[i]
		switch c {
		case '"', '`':
			j := i + 1
			for j < len(s) && s[j] != c {
				if s[j] == '\\' && c == '"' {
					j++
				}
				j++
			}
			out.WriteString(s[i:min2(j+1, len(s))])
			i = j + 1
		case '(', '[':
			closeC := byte(')')
			if c == '[' {
				closeC = ']'
			}
			j := matchClose(s, i, c, closeC)
			inner := s[i+1 : j]
			parts := splitTop(inner, ',')
			for k := range parts {
				parts[k] = desugar(parts[k])
			}
			out.WriteByte(c)
			out.WriteString(strings.Join(parts, ","))
			out.WriteByte(closeC)
			i = j + 1
		default:
			out.WriteByte(c)
			i++
		}
	}
	t := out.String()
	if k := indexTop(t, "<==>"); k >= 0 {
		return "iff(" + desugar(t[:k]) + ", " + desugar(t[k+4:]) + ")"
	}
	if k := indexTop(t, "==>"); k >= 0 {
		return "implies(" + strings.TrimSpace(t[:k]) + ", " + desugar(t[k+3:]) + ")"
	}
	return t
}

func min2(a, b int) int {
	if a < b {
		return a
	}
	return b
}

func matchClose(s string, i int, open, closeC byte) int {
	depth := 0
	for j := i; j < len(s); j++ {
		switch s[j] {
		case '"', '`':
			q := s[j]
			j++
			for j < len(s) && s[j] != q {
				if s[j] == '\\' && q == '"' {
					j++
				}
				j++
			}
		case '(', '[':
			depth++
		case ')', ']':
			depth--
			if depth == 0 {
				return j
			}
		}
	}
	return len(s) - 1
}

func splitTop(s string, sep byte) []string {
	var parts []string
	depth := 0
	start := 0
	for j := 0; j < len(s); j++ {
		switch s[j] {
		case '"', '`':
			q := s[j]
			j++
			for j < len(s) && s[j] != q {
				if s[j] == '\\' && q == '"' {
					j++
				}
				j++
			}
		case '(', '[':
			depth++
		case ')', ']':
			depth--
		default:
			if s[j] == sep && depth == 0 {
				parts = append(parts, s[start:j])
				start = j + 1
			}
		}
	}
	parts = append(parts, s[start:])
	return parts
}

func indexTop(s, op string) int {
	depth := 0
	for j := 0; j < len(s); j++ {
		switch s[j] {
		case '"', '`':
			q := s[j]
			j++
			for j < len(s) && s[j] != q {
				if s[j] == '\\' && q == '"' {
					j++
				}
				j++
			}
		case '(', '[':
			depth++
		case ')', ']':
			depth--
		default:
			if depth == 0 && strings.HasPrefix(s[j:], op) {
				// do not match the tail of "<==>" when looking for "==>"
				if op == "==>" && j > 0 && s[j-1] == '<' {
					continue
				}
				return j
			}
		}
	}
	return -1
}

// ---------------------------------------------------------------------------
// Evaluation

type specEnv struct {
	noTrace bool   // the expression is assumed at a call site: clauses about the callee's own effect trace cannot be interpreted over the caller's trace
	goal    bool   // the expression is being proved (not assumed): existential spec forms need a witness from the path
	into    *State // receives memory-model side facts about loaded references (nil: none)
	st      *State
	old     *State
	vars    map[string]SV
	oldVars map[string]SV
	bound   map[string]SV
	fr      *frame
	pkg     *types.Package
	depth   int
}

func (env *specEnv) with(name string, v SV) *specEnv {
	n := *env
	n.bound = map[string]SV{}
	for k, x := range env.bound {
		n.bound[k] = x
	}
	n.bound[name] = v
	return &n
}

func (e *Exec) evalSpecBool(x ast.Expr, env *specEnv) (Term, error) {
	v, err := e.evalSpec(x, env)
	if err != nil {
		return Term{}, err
	}
	if len(v.L) != 1 || v.L[0].Sort != SBool {
		return Term{}, fmt.Errorf("expression %s is not boolean", exprString(x))
	}
	return v.L[0], nil
}

func exprString(x ast.Expr) string {
	var b strings.Builder
	printExpr(&b, x)
	return b.String()
}

func printExpr(b *strings.Builder, x ast.Expr) {
	switch n := x.(type) {
	case *ast.Ident:
		b.WriteString(n.Name)
	case *ast.BasicLit:
		b.WriteString(n.Value)
	case *ast.BinaryExpr:
		printExpr(b, n.X)
		b.WriteString(" " + n.Op.String() + " ")
		printExpr(b, n.Y)
	case *ast.CallExpr:
		printExpr(b, n.Fun)
		b.WriteString("(")
		for i, a := range n.Args {
			if i > 0 {
				b.WriteString(", ")
			}
			printExpr(b, a)
		}
		b.WriteString(")")
	case *ast.SelectorExpr:
		printExpr(b, n.X)
		b.WriteString("." + n.Sel.Name)
	case *ast.ParenExpr:
		b.WriteString("(")
		printExpr(b, n.X)
		b.WriteString(")")
	case *ast.UnaryExpr:
		b.WriteString(n.Op.String())
		printExpr(b, n.X)
	case *ast.IndexExpr:
		printExpr(b, n.X)
		b.WriteString("[")
		printExpr(b, n.Index)
		b.WriteString("]")
	default:
		fmt.Fprintf(b, "<%T>", x)
	}
}

var errTraceClause = fmt.Errorf("clause about the callee's own effect trace: not visible to callers")

func pureSV(t Term) SV { return SV{L: []Term{t}} }

// refFacts: every reference stored in the heap is allocated (global invariant of the memory model).
func (e *Exec) refFacts(env *specEnv, v SV) SV {
	if env.into == nil || v.T == nil {
		return v
	}
	for _, t := range v.L {
		if strings.Contains(t.S, "!q") {
			return v
		}
	}
	saved := env.into.alloc
	env.into.alloc = env.st.alloc
	e.wfAssume(env.into, v)
	env.into.alloc = saved
	return v
}

func (e *Exec) evalSpec(x ast.Expr, env *specEnv) (SV, error) {
	switch n := x.(type) {
	case *ast.ParenExpr:
		return e.evalSpec(n.X, env)
	case *ast.Ident:
		if v, ok := env.bound[n.Name]; ok {
			return v, nil
		}
		if v, ok := env.vars[n.Name]; ok {
			return v, nil
		}
		switch n.Name {
		case "true":
			return pureSV(BoolLit(true)), nil
		case "false":
			return pureSV(BoolLit(false)), nil
		case "nil":
			return pureSV(IntLit(0)), nil
		}
		if m, ok := e.specs.Macros[n.Name]; ok && len(m.Params) == 0 {
			return e.evalSpec(m.Body, env)
		}
		return SV{}, fmt.Errorf("unknown identifier %s", n.Name)
	case *ast.BasicLit:
		switch n.Kind {
		case token.INT:
			k, _ := strconv.ParseInt(n.Value, 0, 64)
			return pureSV(IntLit(k)), nil
		case token.STRING:
			s, err := strconv.Unquote(n.Value)
			if err != nil {
				return SV{}, err
			}
			return pureSV(StrLit(s)), nil
		}
	case *ast.UnaryExpr:
		v, err := e.evalSpec(n.X, env)
		if err != nil {
			return SV{}, err
		}
		switch n.Op {
		case token.NOT:
			return pureSV(Not(v.L[0])), nil
		case token.SUB:
			return pureSV(Sub(IntLit(0), v.L[0])), nil
		}
	case *ast.StarExpr:
		v, err := e.evalSpec(n.X, env)
		if err != nil {
			return SV{}, err
		}
		a := e.addrOf(env.st, v, nil, "", nil)
		if a == nil {
			return SV{}, fmt.Errorf("cannot dereference %s", exprString(n.X))
		}
		return e.load(env.st, a), nil
	case *ast.BinaryExpr:
		a, err := e.evalSpec(n.X, env)
		if err != nil {
			return SV{}, err
		}
		// lazy connectives: statically decided left operands (event predicates) guard the right one
		if n.Op == token.LAND && len(a.L) == 1 && a.L[0].S == "false" {
			return pureSV(BoolLit(false)), nil
		}
		if n.Op == token.LOR && len(a.L) == 1 && a.L[0].S == "true" {
			return pureSV(BoolLit(true)), nil
		}
		b, err := e.evalSpec(n.Y, env)
		if err != nil {
			return SV{}, err
		}
		if len(a.L) == 0 || len(b.L) == 0 {
			return SV{}, fmt.Errorf("empty operand in %s", exprString(x))
		}
		switch n.Op {
		case token.LAND:
			return pureSV(And(a.L[0], b.L[0])), nil
		case token.LOR:
			return pureSV(Or(a.L[0], b.L[0])), nil
		case token.EQL, token.NEQ:
			var eqs []Term
			if len(a.L) != len(b.L) {
				// comparison with nil
				eqs = append(eqs, Eq(a.L[0], b.L[0]))
			} else {
				for i := range a.L {
					if a.L[i].Sort != b.L[i].Sort {
						return SV{}, fmt.Errorf("sort mismatch in %s: %s vs %s", exprString(x), a.L[i].Sort, b.L[i].Sort)
					}
					eqs = append(eqs, Eq(a.L[i], b.L[i]))
				}
			}
			r := And(eqs...)
			if n.Op == token.NEQ {
				r = Not(r)
			}
			return pureSV(r), nil
		}
		if a.L[0].Sort != b.L[0].Sort {
			return SV{}, fmt.Errorf("sort mismatch in %s: %s vs %s", exprString(x), a.L[0].Sort, b.L[0].Sort)
		}
		r := e.binop(env.st, n.Op, SV{T: types.Typ[types.Int], L: a.L}, SV{T: types.Typ[types.Int], L: b.L}, nil, nil)
		return pureSV(r.L[0]), nil
	case *ast.SelectorExpr:
		v, err := e.evalSpec(n.X, env)
		if err != nil {
			return SV{}, err
		}
		return e.selectField(env, v, n.Sel.Name, x)
	case *ast.IndexExpr:
		v, err := e.evalSpec(n.X, env)
		if err != nil {
			return SV{}, err
		}
		idx, err := e.evalSpec(n.Index, env)
		if err != nil {
			return SV{}, err
		}
		if v.T == nil {
			// raw SMT array
			return pureSV(Select(v.L[0], idx.L[0])), nil
		}
		switch t := v.T.Underlying().(type) {
		case *types.Slice:
			a := &Addr{Kind: AElem, Class: typeKey(t.Elem()), Ref: v.L[0], Idx: CellIdx(v.L[1], idx.L[0]), T: t.Elem()}
			return e.refFacts(env, e.load(env.st, a)), nil
		case *types.Map:
			return e.refFacts(env, e.mapVal(env.st, t, v.L[0], idx.L[0])), nil
		case *types.Basic:
			return pureSV(app(SInt, "str.to_code", app(SString, "str.at", v.L[0], idx.L[0]))), nil
		}
		return SV{}, fmt.Errorf("cannot index %s", exprString(n.X))
	case *ast.SliceExpr:
		v, err := e.evalSpec(n.X, env)
		if err != nil {
			return SV{}, err
		}
		lo := IntLit(0)
		if n.Low != nil {
			l, err := e.evalSpec(n.Low, env)
			if err != nil {
				return SV{}, err
			}
			lo = l.L[0]
		}
		if len(v.L) == 1 && v.L[0].Sort == SString {
			hi := app(SInt, "str.len", v.L[0])
			if n.High != nil {
				h, err := e.evalSpec(n.High, env)
				if err != nil {
					return SV{}, err
				}
				hi = h.L[0]
			}
			return pureSV(app(SString, "str.substr", v.L[0], lo, Sub(hi, lo))), nil
		}
		if len(v.L) == 4 {
			hi := v.L[2]
			if n.High != nil {
				h, err := e.evalSpec(n.High, env)
				if err != nil {
					return SV{}, err
				}
				hi = h.L[0]
			}
			return SV{T: v.T, L: []Term{v.L[0], Add(v.L[1], lo), Sub(hi, lo), Sub(v.L[3], lo)}}, nil
		}
		return SV{}, fmt.Errorf("cannot slice %s", exprString(n.X))
	case *ast.CallExpr:
		return e.evalSpecCall(n, env)
	}
	return SV{}, fmt.Errorf("unsupported spec expression %s (%T)", exprString(x), x)
}

func findField(t types.Type, name string) (path string, ft types.Type, ok bool) {
	st, isS := t.Underlying().(*types.Struct)
	if !isS {
		return "", nil, false
	}
	for i := 0; i < st.NumFields(); i++ {
		f := st.Field(i)
		if f.Name() == name {
			return "." + f.Name(), f.Type(), true
		}
	}
	for i := 0; i < st.NumFields(); i++ {
		f := st.Field(i)
		if f.Embedded() {
			if p, ft, ok := findField(f.Type(), name); ok {
				return "." + f.Name() + p, ft, true
			}
		}
	}
	// a field the contract names as the pinned tree did, renamed since: bound by position (same number of fields)
	if pf, ok := pinnedFields[typeKey(t)]; ok && len(pf) == st.NumFields() {
		for i, n := range pf {
			if n == name {
				f := st.Field(i)
				return "." + f.Name(), f.Type(), true
			}
		}
	}
	return "", nil, false
}

// pinnedFields: field names of the module's struct types when the baseline was taken (type key -> names)
var pinnedFields = map[string][]string{}

func (e *Exec) selectField(env *specEnv, v SV, name string, x ast.Expr) (SV, error) {
	if v.T == nil {
		return SV{}, fmt.Errorf("selector on untyped value in %s", exprString(x))
	}
	if pt, ok := v.T.Underlying().(*types.Pointer); ok {
		path, ft, ok := findField(pt.Elem(), name)
		if !ok {
			return SV{}, fmt.Errorf("no field %s in %s", name, typeKey(pt.Elem()))
		}
		var a *Addr
		if v.Addr != nil {
			na := *v.Addr
			na.Path += path
			na.T = ft
			a = &na
		} else {
			a = &Addr{Kind: AObj, Class: typeKey(pt.Elem()), Ref: v.L[0], Path: path, T: ft}
		}
		return e.refFacts(env, e.load(env.st, a)), nil
	}
	if _, ok := v.T.Underlying().(*types.Struct); ok {
		path, ft, ok := findField(v.T, name)
		if !ok {
			return SV{}, fmt.Errorf("no field %s in %s", name, typeKey(v.T))
		}
		// locate leaves by path prefix
		leaves := flatten(v.T)
		var out []Term
		for i, l := range leaves {
			if l.Path == path || strings.HasPrefix(l.Path, path+".") || strings.HasPrefix(l.Path, path+"#") {
				out = append(out, v.L[i])
			}
		}
		return SV{T: ft, L: out}, nil
	}
	return SV{}, fmt.Errorf("selector %s on %s", name, typeKey(v.T))
}

func (e *Exec) resolveType(env *specEnv, x ast.Expr) (types.Type, error) {
	switch n := x.(type) {
	case *ast.ParenExpr:
		return e.resolveType(env, n.X)
	case *ast.StarExpr:
		t, err := e.resolveType(env, n.X)
		if err != nil {
			return nil, err
		}
		return types.NewPointer(t), nil
	case *ast.Ident:
		switch n.Name {
		case "int":
			return types.Typ[types.Int], nil
		case "string":
			return types.Typ[types.String], nil
		case "bool":
			return types.Typ[types.Bool], nil
		}
		if env.pkg != nil {
			if o := env.pkg.Scope().Lookup(n.Name); o != nil {
				if tn, ok := o.(*types.TypeName); ok {
					return tn.Type(), nil
				}
			}
		}
	case *ast.SelectorExpr:
		if id, ok := n.X.(*ast.Ident); ok {
			for _, p := range e.ld.allTypes {
				if p.Name() == id.Name || pkgQual(p) == id.Name {
					if o := p.Scope().Lookup(n.Sel.Name); o != nil {
						if tn, ok := o.(*types.TypeName); ok {
							return tn.Type(), nil
						}
					}
				}
			}
		}
	}
	return nil, fmt.Errorf("cannot resolve type %s", exprString(x))
}

func (e *Exec) evalSpecCall(n *ast.CallExpr, env *specEnv) (SV, error) {
	args := func() ([]SV, error) {
		var out []SV
		for _, a := range n.Args {
			v, err := e.evalSpec(a, env)
			if err != nil {
				return nil, err
			}
			out = append(out, v)
		}
		return out, nil
	}
	// conversions used as typed binders are handled in quantifiers only
	if id, ok := n.Fun.(*ast.Ident); ok {
		switch id.Name {
		case "old":
			oe := *env
			oe.st = env.old
			if env.oldVars != nil {
				oe.vars = env.oldVars
			}
			return e.evalSpec(n.Args[0], &oe)
		case "forall", "exists":
			if len(n.Args) < 2 {
				return SV{}, fmt.Errorf("%s needs binders and a body", id.Name)
			}
			benv := env
			var binders []string
			for _, b := range n.Args[:len(n.Args)-1] {
				name, t, err := e.binder(env, b)
				if err != nil {
					return SV{}, err
				}
				e.ctx.n++
				q := sym(fmt.Sprintf("%s!q%d", name, e.ctx.n))
				srt := SInt
				if t != nil {
					srt = flatten(t)[0].Sort
				}
				binders = append(binders, fmt.Sprintf("(%s %s)", q, srt))
				benv = benv.with(name, SV{T: t, L: []Term{{q, srt}}})
			}
			body, err := e.evalSpecBool(n.Args[len(n.Args)-1], benv)
			if err != nil {
				return SV{}, err
			}
			return pureSV(Term{fmt.Sprintf("(%s (%s) %s)", id.Name, strings.Join(binders, " "), body.S), SBool}), nil
		case "implies":
			a0, err := e.evalSpec(n.Args[0], env)
			if err != nil {
				return SV{}, err
			}
			if len(a0.L) == 1 && a0.L[0].S == "false" {
				return pureSV(BoolLit(true)), nil
			}
			a1, err := e.evalSpec(n.Args[1], env)
			if err != nil {
				return SV{}, err
			}
			return pureSV(Implies(a0.L[0], a1.L[0])), nil
		case "rawcells": // rawcells("byte", s): the backing array of slice s as an SMT array
			lit, ok := n.Args[0].(*ast.BasicLit)
			if !ok {
				return SV{}, fmt.Errorf("rawcells needs a literal element type key")
			}
			key, _ := strconv.Unquote(lit.Value)
			v, err := e.evalSpec(n.Args[1], env)
			if err != nil {
				return SV{}, err
			}
			srt := SInt
			if key == "string" {
				srt = SString
			}
			A := e.heapGet(env.st, heapSym("A", key, ""), ArrSort(SInt, ArrSort(SInt, srt)))
			return pureSV(Select(A, v.L[0])), nil
		case "rawoff":
			v, err := e.evalSpec(n.Args[0], env)
			if err != nil {
				return SV{}, err
			}
			return pureSV(v.L[1]), nil
		case "iff":
			a, err := args()
			if err != nil {
				return SV{}, err
			}
			return pureSV(Eq(a[0].L[0], a[1].L[0])), nil
		case "ite":
			a, err := args()
			if err != nil {
				return SV{}, err
			}
			out := SV{T: a[1].T}
			for i := range a[1].L {
				out.L = append(out.L, Ite(a[0].L[0], a[1].L[i], a[2].L[i]))
			}
			return out, nil
		case "len":
			a, err := args()
			if err != nil {
				return SV{}, err
			}
			if len(a[0].L) == 4 {
				return pureSV(a[0].L[2]), nil
			}
			if a[0].L[0].Sort == SString {
				return pureSV(app(SInt, "str.len", a[0].L[0])), nil
			}
			return SV{}, fmt.Errorf("len of %s (type %v, %d leaves, addr %v)", exprString(n.Args[0]), a[0].T, len(a[0].L), a[0].Addr)
		case "cap":
			a, err := args()
			if err != nil {
				return SV{}, err
			}
			return pureSV(a[0].L[3]), nil
		case "dom": // dom(m, k): key k present in map m
			a, err := args()
			if err != nil {
				return SV{}, err
			}
			mt, ok := a[0].T.Underlying().(*types.Map)
			if !ok {
				return SV{}, fmt.Errorf("dom of non-map")
			}
			return pureSV(And(Not(Eq(a[0].L[0], IntLit(0))), Select(e.mapDom(env.st, mt, a[0].L[0]), a[1].L[0]))), nil
		case "otherMapsKept": // otherMapsKept(m): every map of m's type other than m has the content it had in the old state
			a, err := args()
			if err != nil {
				return SV{}, err
			}
			mt, ok := a[0].T.Underlying().(*types.Map)
			if !ok {
				return SV{}, fmt.Errorf("otherMapsKept of non-map")
			}
			cls := "M:" + typeKey(mt.Key()) + ":" + typeKey(mt.Elem())
			ks := flatten(mt.Key())[0].Sort
			var cs []Term
			names := []string{cls + "#dom"}
			sorts := []Sort{ArrSort(SInt, ArrSort(ks, SBool))}
			for _, l := range flatten(mt.Elem()) {
				names = append(names, cls+"#val"+l.Path)
				sorts = append(sorts, ArrSort(SInt, ArrSort(ks, l.Sort)))
				e.ctx.refLeaf[cls+"#val"+l.Path] = isRefLeaf(l)
			}
			e.ctx.n++
			q := sym(fmt.Sprintf("mm!q%d", e.ctx.n))
			for i, nm := range names {
				now := e.heapGet(env.st, nm, sorts[i])
				was := e.heapGet(env.old, nm, sorts[i])
				cs = append(cs, Term{fmt.Sprintf("(= (select %s %s) (select %s %s))", now.S, q, was.S, q), SBool})
			}
			return pureSV(Term{fmt.Sprintf("(forall ((%s Int)) (=> (not (= %s %s)) %s))", q, q, a[0].L[0].S, And(cs...).S), SBool}), nil
		case "allocated": // reference existed in the current state
			a, err := args()
			if err != nil {
				return SV{}, err
			}
			return pureSV(And(Gt(a[0].L[0], IntLit(0)), Lt(a[0].L[0], env.st.alloc))), nil
		case "fresh": // allocated during the call
			a, err := args()
			if err != nil {
				return SV{}, err
			}
			return pureSV(And(Ge(a[0].L[0], env.old.alloc), Lt(a[0].L[0], env.st.alloc))), nil
		case "toUpper", "toLower", "sanitize":
			a, err := args()
			if err != nil {
				return SV{}, err
			}
			return pureSV(e.ctx.uf(map[string]string{"toUpper": "strings.ToUpper", "toLower": "strings.ToLower", "sanitize": "registry.replacer.Replace"}[id.Name], SString, a[0].L[0])), nil
		case "itoa":
			a, err := args()
			if err != nil {
				return SV{}, err
			}
			return pureSV(app(SString, "str.from_int", a[0].L[0])), nil
		case "contains":
			a, err := args()
			if err != nil {
				return SV{}, err
			}
			return pureSV(app(SBool, "str.contains", a[0].L[0], a[1].L[0])), nil
		case "hasPrefix":
			a, err := args()
			if err != nil {
				return SV{}, err
			}
			return pureSV(app(SBool, "str.prefixof", a[1].L[0], a[0].L[0])), nil
		case "hasSuffix":
			a, err := args()
			if err != nil {
				return SV{}, err
			}
			return pureSV(app(SBool, "str.suffixof", a[1].L[0], a[0].L[0])), nil
		case "indexOf":
			a, err := args()
			if err != nil {
				return SV{}, err
			}
			return pureSV(app(SInt, "str.indexof", a[0].L[0], a[1].L[0], IntLit(0))), nil
		case "substr": // substr(s, from, to)
			a, err := args()
			if err != nil {
				return SV{}, err
			}
			return pureSV(app(SString, "str.substr", a[0].L[0], a[1].L[0], Sub(a[2].L[0], a[1].L[0]))), nil
		case "dyn":
			a, err := args()
			if err != nil {
				return SV{}, err
			}
			return pureSV(e.dyn(a[0].L[0])), nil
		case "isType": // isType(x, T): dynamic type of interface value x is T
			v, err := e.evalSpec(n.Args[0], env)
			if err != nil {
				return SV{}, err
			}
			t, err := e.resolveType(env, n.Args[1])
			if err != nil {
				return SV{}, err
			}
			return pureSV(And(Not(Eq(v.L[0], IntLit(0))), Eq(e.dyn(v.L[0]), e.tagOf(t)))), nil
		case "as": // as(x, T): reinterpret the reference with static type T (spec-level cast)
			v, err := e.evalSpec(n.Args[0], env)
			if err != nil {
				return SV{}, err
			}
			t, err := e.resolveType(env, n.Args[1])
			if err != nil {
				return SV{}, err
			}
			return SV{T: t, L: v.L}, nil
		case "uf": // uf("name", Sort-witness-result, args...) : application of a named uninterpreted function
			nameLit, ok := n.Args[0].(*ast.BasicLit)
			if !ok {
				return SV{}, fmt.Errorf("uf needs a literal name")
			}
			name, _ := strconv.Unquote(nameLit.Value)
			sortLit, ok := n.Args[1].(*ast.Ident)
			if !ok {
				return SV{}, fmt.Errorf("uf needs a result sort (Int, Bool, String)")
			}
			var ts []Term
			for _, a := range n.Args[2:] {
				v, err := e.evalSpec(a, env)
				if err != nil {
					return SV{}, err
				}
				ts = append(ts, v.L...)
			}
			return pureSV(e.ctx.uf(name, Sort(sortLit.Name), ts...)), nil
		case "isJoin":
			return e.evalIsJoin(n, env)
		case "nev":
			if env.noTrace {
				return SV{}, errTraceClause
			}
			return pureSV(IntLit(int64(len(env.st.events)))), nil
		case "forallEv", "existsEv":
			if env.noTrace {
				return SV{}, errTraceClause
			}
			// static expansion over the events of this path
			if len(n.Args) < 2 {
				return SV{}, fmt.Errorf("%s needs binders and a body", id.Name)
			}
			var names []string
			for _, b := range n.Args[:len(n.Args)-1] {
				bid, ok := b.(*ast.Ident)
				if !ok {
					return SV{}, fmt.Errorf("%s: binder must be an identifier", id.Name)
				}
				names = append(names, bid.Name)
			}
			var parts []Term
			var rec func(k int, be *specEnv) error
			rec = func(k int, be *specEnv) error {
				if k == len(names) {
					t, err := e.evalSpecBool(n.Args[len(n.Args)-1], be)
					if err != nil {
						return err
					}
					parts = append(parts, t)
					return nil
				}
				for i := range env.st.events {
					if err := rec(k+1, be.with(names[k], SV{T: types.Typ[types.Int], L: []Term{IntLit(int64(i))}})); err != nil {
						return err
					}
				}
				return nil
			}
			if err := rec(0, env); err != nil {
				return SV{}, err
			}
			if id.Name == "forallEv" {
				return pureSV(And(parts...)), nil
			}
			return pureSV(Or(parts...)), nil
		case "evIs", "evKind", "evArg", "evRes", "evArgContent":
			iv, err := e.evalSpec(n.Args[0], env)
			if err != nil {
				return SV{}, err
			}
			k, ok := litInt(iv.L[0])
			if !ok || k < 0 || int(k) >= len(env.st.events) {
				return SV{}, fmt.Errorf("%s: event index must be a bound event variable", id.Name)
			}
			ev := env.st.events[k]
			switch id.Name {
			case "evIs":
				lit, ok := n.Args[1].(*ast.BasicLit)
				if !ok {
					return SV{}, fmt.Errorf("evIs needs a literal name")
				}
				name, _ := strconv.Unquote(lit.Value)
				return pureSV(BoolLit(ev.Callee == name)), nil
			case "evKind":
				lit, ok := n.Args[1].(*ast.BasicLit)
				if !ok {
					return SV{}, fmt.Errorf("evKind needs a literal kind")
				}
				name, _ := strconv.Unquote(lit.Value)
				return pureSV(BoolLit(hasProp(strings.Fields(ev.Mode), name))), nil
			case "evArg":
				av, err := e.evalSpec(n.Args[1], env)
				if err != nil {
					return SV{}, err
				}
				j, ok := litInt(av.L[0])
				if !ok || int(j) >= len(ev.SVs) {
					return SV{}, fmt.Errorf("evArg: event %s has no argument %v", ev.Callee, av.L[0])
				}
				return ev.SVs[j], nil
			case "evRes":
				if len(n.Args) == 1 {
					return ev.Res, nil
				}
				av, err := e.evalSpec(n.Args[1], env)
				if err != nil {
					return SV{}, err
				}
				j, _ := litInt(av.L[0])
				tt, ok := ev.Res.T.(*types.Tuple)
				if !ok || int(j) >= tt.Len() {
					return SV{}, fmt.Errorf("evRes: event %s has no result %d", ev.Callee, j)
				}
				lo := 0
				for k := 0; k < int(j); k++ {
					lo += len(flatten(tt.At(k).Type()))
				}
				hi := lo + len(flatten(tt.At(int(j)).Type()))
				return SV{T: tt.At(int(j)).Type(), L: ev.Res.L[lo:hi]}, nil
			}
		case "global": // global("os.Stdout"): current value of a package-level variable
			lit, ok := n.Args[0].(*ast.BasicLit)
			if !ok {
				return SV{}, fmt.Errorf("global needs a literal name")
			}
			name, _ := strconv.Unquote(lit.Value)
			k := strings.LastIndex(name, ".")
			for _, p := range e.ld.allTypes {
				if pkgQual(p) == name[:k] {
					if v, ok := p.Scope().Lookup(name[k+1:]).(*types.Var); ok {
						return e.load(env.st, &Addr{Kind: AGlobal, Class: name, T: v.Type()}), nil
					}
				}
			}
			return SV{}, fmt.Errorf("no global %s", name)
		}
		if m, ok := e.specs.Macros[id.Name]; ok {
			if len(m.Params) != len(n.Args) {
				return SV{}, fmt.Errorf("macro %s: %d args, want %d", id.Name, len(n.Args), len(m.Params))
			}
			if env.depth > 40 {
				return SV{}, fmt.Errorf("macro expansion too deep at %s", id.Name)
			}
			menv := *env
			menv.depth++
			menv.bound = map[string]SV{}
			for k, x := range env.bound {
				menv.bound[k] = x
			}
			for i, p := range m.Params {
				v, err := e.evalSpec(n.Args[i], env)
				if err != nil {
					return SV{}, err
				}
				menv.bound[p] = v
			}
			return e.evalSpec(m.Body, &menv)
		}
		return SV{}, fmt.Errorf("unknown spec function %s", id.Name)
	}
	if sel, ok := n.Fun.(*ast.SelectorExpr); ok {
		recv, err := e.evalSpec(sel.X, env)
		if err != nil {
			return SV{}, err
		}
		if recv.T == nil {
			return SV{}, fmt.Errorf("method call on untyped value in %s", exprString(n))
		}
		a, err := args()
		if err != nil {
			return SV{}, err
		}
		obj, _, _ := types.LookupFieldOrMethod(recv.T, true, nil, sel.Sel.Name)
		if obj == nil && env.pkg != nil {
			obj, _, _ = types.LookupFieldOrMethod(recv.T, true, env.pkg, sel.Sel.Name)
		}
		f, ok := obj.(*types.Func)
		if !ok {
			return SV{}, fmt.Errorf("no method %s on %s", sel.Sel.Name, typeKey(recv.T))
		}
		sig := f.Type().(*types.Signature)
		var ts []Term
		ts = append(ts, recv.L...)
		for _, x := range a {
			ts = append(ts, x.L...)
		}
		return e.pureMethod(f, sig, ts), nil
	}
	return SV{}, fmt.Errorf("unsupported call %s", exprString(n))
}

// pureMethod applies the uninterpreted function standing for a pure accessor
// method of a dependency (go/types, go/ast, ...).
func (e *Exec) pureMethod(f *types.Func, sig *types.Signature, args []Term) SV {
	name := pureName(f)
	res := sig.Results()
	out := SV{}
	if res.Len() == 1 {
		out.T = res.At(0).Type()
	} else {
		out.T = res
	}
	for _, l := range flatten(out.T) {
		out.L = append(out.L, e.ctx.uf(name+l.Path, l.Sort, args...))
	}
	return out
}

func pureName(f *types.Func) string {
	pkg := ""
	if f.Pkg() != nil {
		pkg = f.Pkg().Path()
	}
	if pkg == "go/types" {
		return "types." + f.Name()
	}
	sig := f.Type().(*types.Signature)
	if r := sig.Recv(); r != nil {
		t := r.Type()
		if p, ok := t.(*types.Pointer); ok {
			t = p.Elem()
		}
		if n, ok := t.(*types.Named); ok {
			return pkg + "." + n.Obj().Name() + "." + f.Name()
		}
	}
	return pkg + "." + f.Name()
}

func (e *Exec) binder(env *specEnv, b ast.Expr) (string, types.Type, error) {
	switch x := b.(type) {
	case *ast.Ident:
		return x.Name, types.Typ[types.Int], nil
	case *ast.CallExpr:
		if len(x.Args) == 1 {
			id, ok := x.Args[0].(*ast.Ident)
			if !ok {
				break
			}
			t, err := e.resolveType(env, x.Fun)
			if err != nil {
				return "", nil, err
			}
			return id.Name, t, nil
		}
	}
	return "", nil, fmt.Errorf("bad binder %s", exprString(b))
}

// isJoin(r, n, sep, k, elem(k)): r is the strings.Join of the n strings elem(0..n-1) with separator sep.
// As a goal it is discharged against the recorded strings.Join call that produced r; as an
// assumption it introduces the witness array.
func (e *Exec) evalIsJoin(n *ast.CallExpr, env *specEnv) (SV, error) {
	if len(n.Args) != 5 {
		return SV{}, fmt.Errorf("isJoin(r, n, sep, k, elem)")
	}
	r, err := e.evalSpec(n.Args[0], env)
	if err != nil {
		return SV{}, err
	}
	cnt, err := e.evalSpec(n.Args[1], env)
	if err != nil {
		return SV{}, err
	}
	sep, err := e.evalSpec(n.Args[2], env)
	if err != nil {
		return SV{}, err
	}
	kid, ok := n.Args[3].(*ast.Ident)
	if !ok {
		return SV{}, fmt.Errorf("isJoin: binder must be an identifier")
	}
	e.ctx.n++
	q := sym(fmt.Sprintf("%s!q%d", kid.Name, e.ctx.n))
	benv := env.with(kid.Name, SV{T: types.Typ[types.Int], L: []Term{{q, SInt}}})
	el, err := e.evalSpec(n.Args[4], benv)
	if err != nil {
		return SV{}, err
	}
	if env.goal {
		// proved against the recorded strings.Join calls of this path: r is the result of one of them
		// (r = join(view(arr, off, len), sep) by the assumed contract of strings.Join), whose element
		// sequence is pointwise the specified one
		var alts []Term
		for res, jf := range env.st.joins {
			pointwise := Term{fmt.Sprintf("(forall ((%s Int)) (=> (and (<= 0 %s) (< %s %s)) (= (select %s %s) %s)))",
				q, q, q, cnt.L[0].S, jf.Arr.S, CellIdx(jf.Off, Term{q, SInt}).S, el.L[0].S), SBool}
			alts = append(alts, And(Eq(r.L[0], Term{res, SString}), Eq(jf.Len, cnt.L[0]), Eq(jf.Sep, sep.L[0]), pointwise))
		}
		// ... or, for up to three elements, r is literally e0 + sep + e1 + sep + e2 (what strings.Join returns for
		// them): this is how a join written with a strings.Builder or by concatenation is recognised
		for m := 0; m <= 3; m++ {
			cat := StrLit("")
			okm := true
			for k := 0; k < m; k++ {
				ek, err := e.evalSpec(n.Args[4], env.with(kid.Name, SV{T: types.Typ[types.Int], L: []Term{IntLit(int64(k))}}))
				if err != nil || len(ek.L) != 1 {
					okm = false
					break
				}
				if k == 0 {
					cat = ek.L[0]
				} else {
					cat = app(SString, "str.++", cat, sep.L[0], ek.L[0])
				}
			}
			if okm {
				alts = append(alts, And(Eq(cnt.L[0], IntLit(int64(m))), Eq(r.L[0], cat)))
			}
		}
		return pureSV(Or(alts...)), nil
	}
	w := e.ctx.fresh("joinw", ArrSort(SInt, SString))
	pointwise := Term{fmt.Sprintf("(forall ((%s Int)) (=> (and (<= 0 %s) (< %s %s)) (= (select %s %s) %s)))",
		q, q, q, cnt.L[0].S, w.S, q, el.L[0].S), SBool}
	return pureSV(And(pointwise, Eq(r.L[0], e.ctx.uf("strings.Join", SString, w, cnt.L[0], sep.L[0])))), nil
}

func specFilesIn(root string) []string {
	var out []string
	filepath.Walk(root, func(p string, info os.FileInfo, err error) error {
		if err != nil {
			return nil
		}
		if info.IsDir() {
			if info.Name() == "testpackages" || info.Name() == ".git" || info.Name() == "example" {
				return filepath.SkipDir
			}
			return nil
		}
		if info.Name() == "zz_contracts_verif.go" {
			out = append(out, p)
		}
		return nil
	})
	return out
}
